"""Confirm a seeded breaking change and run the checks against it.

usage: seedcheck.py <seed-id> <property> [<source dir with patch.diff,
       demo.py, meta.json>]

1. (with a source dir) copies patch.diff / demo.py / meta.json to
   /verif/seeded/<seed-id>/.
2. Confirms the change in a scratch worktree of /repo (removed afterwards):
   demo exits 0 without the patch, non-zero with it; the non-admin test
   suite passes with the patch.
3. Applies the patch to /repo, runs every quick check with a scratch
   evidence directory, records which properties/rules report it, and undoes
   the patch (git checkout -- .).
Writes the outcome into /verif/seeded/<seed-id>/meta.json.
"""
import json
import os
import shutil
import subprocess
import sys
import tempfile

VERIF = os.path.dirname(os.path.dirname(os.path.abspath(__file__)))
PY = '/venv/bin/python'
PROPS = ['C%02d' % i for i in range(1, 21)]


def sh(cmd, cwd=None, env=None, timeout=1800):
    e = dict(os.environ)
    if env:
        e.update(env)
    r = subprocess.run(cmd, shell=True, cwd=cwd, env=e, capture_output=True,
                       text=True, timeout=timeout)
    return r.returncode, (r.stdout + r.stderr)


def main():
    sid, prop = sys.argv[1], sys.argv[2]
    dst = os.path.join(VERIF, 'seeded', sid)
    if len(sys.argv) > 3:
        src = sys.argv[3]
        os.makedirs(dst, exist_ok=True)
        for fn in ('patch.diff', 'demo.py', 'meta.json'):
            shutil.copy(os.path.join(src, fn), os.path.join(dst, fn))
    patch = os.path.join(dst, 'patch.diff')
    demo = os.path.join(dst, 'demo.py')
    try:
        meta = json.load(open(os.path.join(dst, 'meta.json')))
    except Exception:
        meta = {}
    meta['seed_id'] = sid
    meta['property'] = prop
    ran = []
    # ---- 2. confirm in a scratch worktree
    wt = tempfile.mkdtemp(prefix='seedverify_')
    os.rmdir(wt)
    rc, out = sh('git -C /repo worktree add -q --detach %s HEAD' % wt)
    assert rc == 0, out
    try:
        env = {'PYTHONPATH': wt + '/src'}
        rc0, out0 = sh('%s %s' % (PY, demo), cwd=wt, env=env, timeout=300)
        ran.append('demo on unchanged tree: exit %d' % rc0)
        rca, outa = sh('git apply %s' % patch, cwd=wt)
        assert rca == 0, 'patch does not apply: ' + outa
        rcc, outc = sh('%s -m compileall -q src/socketio' % PY, cwd=wt)
        rc1, out1 = sh('%s %s' % (PY, demo), cwd=wt, env=env, timeout=300)
        ran.append('demo with patch: exit %d' % rc1)
        touches_admin = 'admin.py' in open(patch).read()
        sel = 'tests/common tests/async --deselect tests/common/test_admin.py ' \
              '--deselect tests/async/test_admin.py'
        rct, outt = sh('%s -m pytest -q -p no:cacheprovider --timeout=900 %s'
                       % (PY, sel), cwd=wt, env=env, timeout=3000)
        tail = [l for l in outt.strip().splitlines() if 'passed' in l or
                'failed' in l][-1:]
        ran.append('test suite with patch (without admin tests): %s' % (
            tail[0] if tail else 'exit %d' % rct))
        fails = [l for l in outt.splitlines() if l.startswith('FAILED')]
        if touches_admin:
            # the admin tests bind a fixed port: run them alone in a private
            # network namespace so concurrent runs cannot disturb each other
            cmd = "unshare -rn sh -c 'ip link set lo up; PYTHONPATH=%s/src " \
                  "%s -m pytest -q -p no:cacheprovider --timeout=900 " \
                  "tests/common/test_admin.py tests/async/test_admin.py'" % (
                      wt, PY)
            rca2, outa2 = sh(cmd, cwd=wt, env=env, timeout=3000)
            tail = [l for l in outa2.strip().splitlines() if 'passed' in l
                    or 'failed' in l][-1:]
            ran.append('admin tests with patch (private netns): %s' % (
                tail[0] if tail else 'exit %d' % rca2))
            fails += [l for l in outa2.splitlines()
                      if l.startswith('FAILED')]
        base_fail = {'test_admin_connect_only_admin',
                     'test_admin_connect_production',
                     'test_admin_connect_with_others', 'test_admin_features'}
        new_fail = [l for l in fails
                    if not any(b in l for b in base_fail)]
        meta['confirmed'] = bool(rc0 == 0 and rc1 != 0 and rcc == 0 and
                                 not new_fail)
        meta['confirmation'] = {'demo_unchanged_exit': rc0,
                                'demo_patched_exit': rc1,
                                'compiles': rcc == 0,
                                'suite_new_failures': new_fail}
    finally:
        sh('git -C /repo worktree remove --force %s' % wt)
        shutil.rmtree(wt, ignore_errors=True)
    # ---- 3. run the checks against /repo with the patch applied
    rc, out = sh('git -C /repo status --porcelain')
    assert out.strip() == '', '/repo is not clean: ' + out
    ev = tempfile.mkdtemp(prefix='seedev_')
    detected = {}
    try:
        rc, out = sh('git -C /repo apply %s' % patch)
        assert rc == 0, out
        for p in PROPS:
            rc, out = sh('./check %s --tier quick --evidence-dir %s --quiet'
                         % (p, ev), cwd=VERIF)
            if rc == 1:
                vp = os.path.join(ev, p + '.violations.json')
                rules = []
                if os.path.exists(vp):
                    rules = sorted({v['rule'] for v in
                                    json.load(open(vp))['violations']})
                detected[p] = rules
            elif rc == 2:
                detected[p] = ['ANALYSIS-ERROR: ' + out.strip()[-200:]]
    finally:
        sh('git -C /repo checkout -- .')
        shutil.rmtree(ev, ignore_errors=True)
    meta['detected_by'] = detected
    meta['detected_by_target_property'] = prop in detected and not any(
        'ANALYSIS-ERROR' in r for r in detected[prop])
    meta['what_was_run'] = ran + [
        'git -C /repo apply patch.diff; ./check Cxx --tier quick for all 20 '
        'properties; git -C /repo checkout -- .']
    json.dump(meta, open(os.path.join(dst, 'meta.json'), 'w'), indent=1)
    print(sid, prop, 'confirmed=%s' % meta['confirmed'],
          'detected_by=%s' % detected)


if __name__ == '__main__':
    main()
