"""Run every quick check against behaviour-preserving patches: all must stay
silent (exit 0).  usage: neutralcheck.py <dir with neutral_*.diff
[index.json]> <label>   -> copies the patches to /verif/seeded/neutral/<label>/
and writes results.json there."""
import glob
import json
import os
import shutil
import subprocess
import sys
import tempfile

VERIF = os.path.dirname(os.path.dirname(os.path.abspath(__file__)))
PROPS = ['C%02d' % i for i in range(1, 21)]


def sh(cmd, cwd=None):
    r = subprocess.run(cmd, shell=True, cwd=cwd, capture_output=True,
                       text=True)
    return r.returncode, r.stdout + r.stderr


def main():
    src, label = sys.argv[1], sys.argv[2]
    dst = os.path.join(VERIF, 'seeded', 'neutral', label)
    os.makedirs(dst, exist_ok=True)
    if os.path.abspath(src) != os.path.abspath(dst):
        for f in glob.glob(os.path.join(src, 'neutral_*.diff')) + \
                glob.glob(os.path.join(src, 'index.json')):
            shutil.copy(f, dst)
    rc, out = sh('git -C /repo status --porcelain')
    assert out.strip() == '', '/repo not clean'
    results = {}
    for patch in sorted(glob.glob(os.path.join(dst, 'neutral_*.diff'))):
        name = os.path.basename(patch)
        if os.path.getsize(patch) == 0:
            results[name] = {'skipped': 'empty patch'}
            continue
        rc, out = sh('git -C /repo apply --check %s' % patch)
        if rc != 0:
            results[name] = {'skipped': 'does not apply: ' + out[-200:]}
            continue
        ev = tempfile.mkdtemp(prefix='neutralev_')
        alarms = {}
        try:
            sh('git -C /repo apply %s' % patch)
            for p in PROPS:
                rc, out = sh('./check %s --tier quick --evidence-dir %s '
                             '--quiet' % (p, ev), cwd=VERIF)
                if rc != 0:
                    lines = [l for l in out.splitlines()
                             if 'violated' in l or 'ANALYSIS-ERROR' in l]
                    alarms[p] = {'exit': rc, 'lines': lines[:6]}
        finally:
            sh('git -C /repo checkout -- .')
            shutil.rmtree(ev, ignore_errors=True)
        results[name] = {'alarms': alarms}
        print(label, name, 'OK' if not alarms else 'ALARMS %s' % {
            k: v['exit'] for k, v in alarms.items()})
        for k, v in alarms.items():
            for l in v['lines'][:3]:
                print('     ', k, l[:230])
    json.dump(results, open(os.path.join(dst, 'results.json'), 'w'), indent=1)


if __name__ == '__main__':
    main()
