#!/bin/sh
# tryseed.sh <seed-id|patch file> <Cxx> [more Cxx...] : run checks against a
# scratch copy of HEAD's package with the patch applied (/repo untouched)
cd "$(dirname "$0")/.."
p="$1"; shift
[ -f "$p" ] || p="seeded/$p/patch.diff"
p=$(realpath "$p")
t=$(mktemp -d /tmp/tryseed_XXXXXX)
git -C /repo archive HEAD src/socketio | tar -x -C "$t"
(cd "$t" && git apply "$p") || { echo "patch does not apply"; rm -rf "$t"; exit 3; }
for c in "$@"; do ./check "$c" --repo "$t" --evidence-dir "$t/ev" --no-selftest 2>&1 | grep -v "^WARNING" | grep "violated\|ANALYSIS-ERROR\|obligations\|VIOLATION" | cut -c1-400; done
rm -rf "$t"
