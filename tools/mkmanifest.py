"""Regenerate /verif/MANIFEST.json from tools/claims.py (kept valid at all
times: a property without an implemented check is listed under
not_applicable with the reason)."""
import json
import os
import sys

HERE = os.path.dirname(os.path.abspath(__file__))
VERIF = os.path.dirname(HERE)
sys.path.insert(0, HERE)
from claims import CLAIMS, PENDING_REASON  # noqa

props = [json.loads(l) for l in open(os.path.join(VERIF, 'properties.jsonl'))]
checks = []
na = []
for p in props:
    pid = p['id']
    c = CLAIMS.get(pid)
    if not c:
        na.append({'property_id': pid, 'reason': PENDING_REASON})
        continue
    checks.append({
        'property_id': pid,
        'quick_cmd': './check %s --tier quick' % pid,
        'thorough_cmd': './check %s --tier thorough' % pid,
        'evidence_file': '/verif/evidence/%s.json' % pid,
        'replay_cmd_template': '/venv/bin/python -m json.tool {path}',
        'engine': 'sa',
        'level_claimed': {'category': 'other', 'text': c['text'],
                          'design_ref': 'DESIGN.md section 3, ' + pid},
        'level_note': c['note'],
        'technique': c['technique'],
    })
m = {
    'version': 1,
    'setup_cmd': '/venv/bin/python -m compileall -q sa selftest check.py',
    'hooks': {
        'guard': 'SOCKETIO_VERIF',
        'enable': 'no source hooks exist: the checks only parse '
                  '/repo/src/socketio (static analysis), nothing is built or '
                  'run with a guard',
        'baseline_off_cmd': 'cd /repo && /venv/bin/python -m pytest -ra -q '
                            '-p no:cacheprovider --timeout=900 '
                            '--continue-on-collection-errors',
        'source_commits': [],
        'add_only': True,
    },
    'engines': [{
        'name': 'sa', 'path': 'sa',
        'serves_properties': [c['property_id'] for c in checks],
        'kind_free_text': 'repository-specific static analysis over the ast '
        'of /repo/src/socketio: class-hierarchy call resolution, symbolic '
        'enumeration of structured paths (guards, order, pairing, '
        'exceptional exits, suspension points), decision tables over finite '
        'abstractions, forwarding / provenance / schema / twin-agreement '
        'rules; self-test by source variants in selftest/',
    }],
    'checks': checks,
    'not_applicable': na,
    'notes': 'Static analysis only (no execution, no solver). Fix commits in '
             '/repo and open findings are recorded in known_findings.json; '
             'DESIGN.md explains the rules per property and what is NOT '
             'decided.',
}
json.dump(m, open(os.path.join(VERIF, 'MANIFEST.json'), 'w'), indent=1)
print('checks:', len(checks), 'not_applicable:', len(na))
