"""Systematic mutation campaign against the static checks (a measurement of
the checkers, not a check: nothing here decides a property).

  mutate.py gen                 -> mutation/mutants.json   (list of mutants)
  mutate.py checks [-j N]       -> mutation/checks.json    (which property /
                                   rule reports each mutant; static only)
  mutate.py tests  [-j N]       -> mutation/tests.json     (for mutants no
                                   check reports: does the project's own
                                   non-admin test-suite notice?)
  mutate.py report              -> mutation/REPORT.md + summary.json

Mutants are single-site source edits computed from the syntax tree of
/repo/src/socketio/*.py (position-exact text replacement, the rest of the file
is untouched):
  neg-cond   `if C` / `while C` / ternary / assert  ->  `not (C)`
  del-stmt   an expression statement, assignment, augmented assignment or
             `del` is replaced by `pass`
  ret-none   `return E` -> `return None`
  cmp        == <-> !=, in <-> not in, is <-> is not, < <-> <=, > <-> >=
  boolop     and <-> or
  const      True <-> False; integer n -> n + 1
  kw-drop    a keyword argument of a call is dropped
  arg-swap   the first two positional arguments of a call are swapped
Scratch copies live under a temporary directory outside /repo and /verif and
are removed as soon as a mutant has been evaluated.
"""
import ast
import io
import json
import os
import shutil
import subprocess
import sys
import tempfile
from contextlib import redirect_stdout
from multiprocessing import Pool

VERIF = os.path.dirname(os.path.dirname(os.path.abspath(__file__)))
sys.path.insert(0, VERIF)
OUT = os.path.join(VERIF, 'mutation')
REPO = '/repo'
PKG = os.path.join(REPO, 'src', 'socketio')
# C14 (twin agreement) reports every one-sided edit of a twinned function, so
# it would "kill" every single-site mutant of those files without saying
# anything about the behavioural rules: it is left out of the campaign
PROPS = ['C%02d' % i for i in range(1, 21) if i != 14]
SKIP_FILES = {'asgi.py', 'middleware.py', 'tornado.py', 'zmq_manager.py',
              'kafka_manager.py', 'kombu_manager.py', 'redis_manager.py',
              'async_redis_manager.py', 'async_aiopika_manager.py',
              '__init__.py', 'exceptions.py'}
CMP = {ast.Eq: '!=', ast.NotEq: '==', ast.In: 'not in', ast.NotIn: 'in',
       ast.Is: 'is not', ast.IsNot: 'is', ast.Lt: '<=', ast.LtE: '<',
       ast.Gt: '>=', ast.GtE: '>'}


def offsets(src):
    off = [0]
    for line in src.splitlines(keepends=True):
        off.append(off[-1] + len(line.encode('utf-8')))
    return off


def span(node, off):
    return (off[node.lineno - 1] + node.col_offset,
            off[node.end_lineno - 1] + node.end_col_offset)


def is_docstring(stmt):
    return isinstance(stmt, ast.Expr) and isinstance(stmt.value, ast.Constant) \
        and isinstance(stmt.value.value, str)


def is_log(stmt):
    if isinstance(stmt, ast.Expr) and isinstance(stmt.value, ast.Call):
        t = ast.unparse(stmt.value.func)
        return 'logger.' in t or t.startswith('print')
    return False


def gen_file(fn):
    path = os.path.join(PKG, fn)
    src = open(path, encoding='utf-8').read()
    b = src.encode('utf-8')
    tree = ast.parse(src)
    off = offsets(src)
    out = []
    owner = {}

    def mark(node, name):
        for ch in ast.iter_child_nodes(node):
            nm = name
            if isinstance(ch, (ast.FunctionDef, ast.AsyncFunctionDef,
                               ast.ClassDef)):
                nm = (name + '.' if name else '') + ch.name
            owner[id(ch)] = nm
            mark(ch, nm)
    mark(tree, '')

    def add(op, node, a, z, new):
        old = b[a:z].decode('utf-8')
        if old == new:
            return
        out.append({'file': fn, 'op': op, 'line': node.lineno,
                    'func': owner.get(id(node), ''), 'start': a, 'end': z,
                    'old': old[:120], 'new': new[:160], 'new_full': new})

    for node in ast.walk(tree):
        fq = owner.get(id(node), '')
        if not fq or '.' not in fq and not isinstance(
                node, (ast.stmt, ast.expr)):
            continue
        if not fq:
            continue
        # only code inside functions
        if isinstance(node, (ast.If, ast.While, ast.IfExp, ast.Assert)):
            t = node.test
            if isinstance(node, ast.While) and isinstance(t, ast.Constant):
                continue
            a, z = span(t, off)
            add('neg-cond', t, a, z, 'not (%s)' % b[a:z].decode())
        if isinstance(node, (ast.Expr, ast.Assign, ast.AugAssign,
                             ast.Delete)) and not is_docstring(node) \
                and not is_log(node):
            if isinstance(node, ast.Expr) and not isinstance(
                    node.value, (ast.Call, ast.Await)):
                continue
            a, z = span(node, off)
            add('del-stmt', node, a, z, 'pass')
        if isinstance(node, ast.Return) and node.value is not None and not (
                isinstance(node.value, ast.Constant) and
                node.value.value is None):
            a, z = span(node.value, off)
            add('ret-none', node, a, z, 'None')
        if isinstance(node, ast.Compare) and len(node.ops) == 1 and \
                type(node.ops[0]) in CMP:
            la, lz = span(node.left, off)
            ra, rz = span(node.comparators[0], off)
            add('cmp', node, lz, ra, ' %s ' % CMP[type(node.ops[0])])
        if isinstance(node, ast.BoolOp):
            new = ' or ' if isinstance(node.op, ast.And) else ' and '
            for x, y in zip(node.values, node.values[1:]):
                xa, xz = span(x, off)
                ya, yz = span(y, off)
                mid = b[xz:ya].decode()
                if '(' in mid or ')' in mid:
                    continue
                # keep line continuations
                kw = 'and' if isinstance(node.op, ast.And) else 'or'
                if mid.count(kw) != 1:
                    continue
                add('boolop', node, xz, ya, mid.replace(kw, new.strip()))
        if isinstance(node, ast.Constant) and not isinstance(
                node.value, str):
            a, z = span(node, off)
            if node.value is True:
                add('const', node, a, z, 'False')
            elif node.value is False:
                add('const', node, a, z, 'True')
            elif isinstance(node.value, int):
                add('const', node, a, z, str(node.value + 1))
        if isinstance(node, ast.Call):
            t = ast.unparse(node.func)
            if 'logger.' in t:
                continue
            for k in node.keywords:
                if k.arg is None:
                    continue
                ka, kz = span(k, off)
                # swallow the separating comma
                rest = b[kz:].decode()
                j = 0
                while j < len(rest) and rest[j] in ' \n\\':
                    j += 1
                if j < len(rest) and rest[j] == ',':
                    z2 = kz + j + 1
                    add('kw-drop', node, ka, z2, '')
                else:
                    before = b[:ka].decode().rstrip()
                    if before.endswith(','):
                        a2 = len(before.encode()) - 1
                        add('kw-drop', node, a2, kz, '')
            if len(node.args) >= 2 and not any(
                    isinstance(x, ast.Starred) for x in node.args[:2]):
                a0, z0 = span(node.args[0], off)
                a1, z1 = span(node.args[1], off)
                s0, s1 = b[a0:z0].decode(), b[a1:z1].decode()
                if s0 != s1:
                    add('arg-swap', node, a0, z1,
                        s1 + b[z0:a1].decode() + s0)
    # only mutants inside function bodies
    out = [m for m in out if m['func'] and (
        '.' in m['func'] or m['func'][0].islower() or m['func'][0] == '_')]
    return out


def cmd_gen():
    os.makedirs(OUT, exist_ok=True)
    ms = []
    for fn in sorted(os.listdir(PKG)):
        if fn.endswith('.py') and fn not in SKIP_FILES:
            ms += gen_file(fn)
    # drop duplicates (same span, same replacement)
    seen = set()
    uniq = []
    for m in ms:
        k = (m['file'], m['start'], m['end'], m['new_full'])
        if k in seen:
            continue
        seen.add(k)
        uniq.append(m)
    for i, m in enumerate(uniq):
        m['id'] = 'm%04d' % i
    head = subprocess.run(['git', '-C', '/repo', 'rev-parse', 'HEAD'],
                          capture_output=True, text=True).stdout.strip()
    json.dump({'repo_head': head, 'mutants': uniq},
              open(os.path.join(OUT, 'mutants.json'), 'w'), indent=0)
    ops = {}
    for m in uniq:
        ops[m['op']] = ops.get(m['op'], 0) + 1
    print(len(uniq), 'mutants', ops)


def make_copy(m, with_tests=False):
    tmp = tempfile.mkdtemp(prefix='sa_mut_')
    pkg = os.path.join(tmp, 'src', 'socketio')
    os.makedirs(os.path.dirname(pkg))
    shutil.copytree(PKG, pkg, ignore=shutil.ignore_patterns('__pycache__'))
    p = os.path.join(pkg, m['file'])
    b = open(p, 'rb').read()
    nb = b[:m['start']] + m['new_full'].encode('utf-8') + b[m['end']:]
    try:
        compile(nb, p, 'exec')
    except SyntaxError as e:
        shutil.rmtree(tmp, ignore_errors=True)
        return None, 'syntax: %s' % e
    open(p, 'wb').write(nb)
    if with_tests:
        shutil.copytree(os.path.join(REPO, 'tests'),
                        os.path.join(tmp, 'tests'),
                        ignore=shutil.ignore_patterns('__pycache__'))
        for f in ('pyproject.toml', 'tox.ini', 'setup.cfg', 'pytest.ini'):
            if os.path.exists(os.path.join(REPO, f)):
                shutil.copy(os.path.join(REPO, f), tmp)
    return tmp, None


def run_checks(m):
    from check import run_property
    from sa.model import AnalysisError
    tmp, err = make_copy(m)
    if tmp is None:
        return m['id'], {'invalid': err}
    res = {}
    try:
        for prop in PROPS:
            buf = io.StringIO()
            try:
                with redirect_stdout(buf):
                    rc = run_property(prop, 'quick', tmp,
                                      evidence_dir=os.path.join(tmp, 'ev'),
                                      quiet=True, selftest=False)
            except AnalysisError as e:
                res[prop] = {'exit': 2, 'msg': str(e)[:160]}
                continue
            except Exception as e:  # noqa
                res[prop] = {'exit': 3, 'msg': repr(e)[:160]}
                continue
            if rc == 1:
                vp = os.path.join(tmp, 'ev', prop + '.violations.json')
                rules = []
                if os.path.exists(vp):
                    rules = sorted({v['rule'] for v in
                                    json.load(open(vp))['violations']})
                res[prop] = {'exit': 1, 'rules': rules}
            elif rc != 0:
                res[prop] = {'exit': rc}
    finally:
        shutil.rmtree(tmp, ignore_errors=True)
    return m['id'], res


def cmd_checks(jobs):
    d = json.load(open(os.path.join(OUT, 'mutants.json')))
    ms = d['mutants']
    done = {}
    outp = os.path.join(OUT, 'checks.json')
    with Pool(jobs, maxtasksperchild=20) as pool:
        for i, (mid, res) in enumerate(pool.imap_unordered(run_checks, ms,
                                                           chunksize=2)):
            done[mid] = res
            if i % 100 == 0:
                print(i, 'of', len(ms), flush=True)
                json.dump(done, open(outp, 'w'))
    json.dump(done, open(outp, 'w'))
    n1 = sum(1 for r in done.values()
             if any(v.get('exit') == 1 for v in r.values()
                    if isinstance(v, dict)))
    print('reported by a check:', n1, 'of', len(done))


def run_tests(m):
    tmp, err = make_copy(m, with_tests=True)
    if tmp is None:
        return m['id'], {'invalid': err}
    try:
        env = dict(os.environ, PYTHONPATH=os.path.join(tmp, 'src'),
                   PYTHONDONTWRITEBYTECODE='1')
        try:
            r = subprocess.run(
                ['/venv/bin/python', '-m', 'pytest', '-q', '-x', '-p',
                 'no:cacheprovider', '--timeout=120', 'tests/common',
                 'tests/async', '--deselect', 'tests/common/test_admin.py',
                 '--deselect', 'tests/async/test_admin.py'],
                cwd=tmp, env=env, capture_output=True, text=True,
                timeout=900)
            tail = [l for l in r.stdout.strip().splitlines()
                    if ' passed' in l or ' failed' in l or 'error' in l][-1:]
            first = [l for l in r.stdout.splitlines()
                     if l.startswith('FAILED') or l.startswith('ERROR')][:1]
            return m['id'], {'exit': r.returncode,
                             'tail': tail[0][:100] if tail else '',
                             'first': first[0][:140] if first else ''}
        except subprocess.TimeoutExpired:
            return m['id'], {'exit': 'timeout'}
    finally:
        shutil.rmtree(tmp, ignore_errors=True)


def survivors():
    d = json.load(open(os.path.join(OUT, 'mutants.json')))
    ch = json.load(open(os.path.join(OUT, 'checks.json')))
    out = []
    for m in d['mutants']:
        r = ch.get(m['id'])
        if r is None or 'invalid' in r:
            continue
        if not any(isinstance(v, dict) and v.get('exit') in (1, 2, 3)
                   for v in r.values()):
            out.append(m)
    return out


def cmd_tests(jobs):
    ms = survivors()
    if '--admin' not in sys.argv:
        ms = [m for m in ms if 'admin' not in m['file']]
    print(len(ms), 'mutants not reported by any check: running the suite')
    outp = os.path.join(OUT, 'tests.json')
    done = {}
    with Pool(jobs) as pool:
        for i, (mid, res) in enumerate(pool.imap_unordered(run_tests, ms)):
            done[mid] = res
            if i % 50 == 0:
                print(i, 'of', len(ms), flush=True)
                json.dump(done, open(outp, 'w'))
    json.dump(done, open(outp, 'w'))


def cmd_report():
    d = json.load(open(os.path.join(OUT, 'mutants.json')))
    ch = json.load(open(os.path.join(OUT, 'checks.json')))
    tp = os.path.join(OUT, 'tests.json')
    ts = json.load(open(tp)) if os.path.exists(tp) else {}
    rows = {}
    surv = []
    tot = {'mutants': 0, 'invalid': 0, 'reported': 0, 'analysis_error': 0,
           'silent_suite_fails': 0, 'silent_suite_passes': 0,
           'silent_not_run': 0}
    byprop = {}
    for m in d['mutants']:
        r = ch.get(m['id'])
        if r is None:
            continue
        tot['mutants'] += 1
        key = (m['file'], m['func'])
        row = rows.setdefault(key, {'n': 0, 'reported': 0, 'err': 0,
                                    'suite_only': 0, 'survived': 0})
        if 'invalid' in r:
            tot['invalid'] += 1
            continue
        row['n'] += 1
        ex = {p: v for p, v in r.items() if isinstance(v, dict)}
        if any(v.get('exit') == 1 for v in ex.values()):
            tot['reported'] += 1
            row['reported'] += 1
            for p, v in ex.items():
                if v.get('exit') == 1:
                    byprop[p] = byprop.get(p, 0) + 1
        elif ex:
            tot['analysis_error'] += 1
            row['err'] += 1
        else:
            t = ts.get(m['id'])
            if t is None:
                tot['silent_not_run'] += 1
            elif t.get('exit') == 0:
                tot['silent_suite_passes'] += 1
                row['survived'] += 1
                surv.append(m)
            else:
                tot['silent_suite_fails'] += 1
                row['suite_only'] += 1
    json.dump({'repo_head': d['repo_head'], 'totals': tot,
               'reported_by_property': dict(sorted(byprop.items())),
               'survivors': [{k: m[k] for k in ('id', 'file', 'func', 'line',
                                                'op', 'old', 'new')}
                             for m in surv]},
              open(os.path.join(OUT, 'summary.json'), 'w'), indent=1)
    with open(os.path.join(OUT, 'REPORT.md'), 'w') as f:
        f.write('# Mutation campaign against the static checks\n\n')
        f.write('repo HEAD %s\n\n' % d['repo_head'])
        f.write('```\n%s\n```\n\n' % json.dumps(tot, indent=1))
        f.write('reported by property: %s\n\n' % dict(sorted(byprop.items())))
        f.write('| file | function | valid mutants | reported by a check | '
                'analysis error (exit 2) | silent, suite fails | silent, '
                'suite passes |\n|---|---|---|---|---|---|---|\n')
        for (fn, fu), r in sorted(rows.items()):
            if r['n']:
                f.write('| %s | %s | %d | %d | %d | %d | %d |\n' % (
                    fn, fu, r['n'], r['reported'], r['err'],
                    r['suite_only'], r['survived']))
    print(tot)


def snapshot():
    """the committed tree of /repo (HEAD), so that patches applied to the
    working tree by other tools in the meantime cannot leak in"""
    global REPO, PKG
    base = tempfile.mkdtemp(prefix='sa_mutbase_')
    subprocess.run('git -C /repo archive HEAD src/socketio tests '
                   'pyproject.toml tox.ini | tar -x -C %s' % base,
                   shell=True, check=True)
    REPO = base
    PKG = os.path.join(base, 'src', 'socketio')
    return base


if __name__ == '__main__':
    cmd = sys.argv[1]
    base = snapshot() if cmd in ('gen', 'checks', 'tests') else None
    jobs = 16
    if '-j' in sys.argv:
        jobs = int(sys.argv[sys.argv.index('-j') + 1])
    {'gen': cmd_gen, 'checks': lambda: cmd_checks(jobs),
     'tests': lambda: cmd_tests(jobs), 'report': cmd_report}[cmd]()
    if base:
        shutil.rmtree(base, ignore_errors=True)
