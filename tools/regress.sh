#!/bin/sh
# full regression of the machinery: quick checks on the clean tree, self-test
# catalogue, neutral refactorings (must stay silent), seeded changes (must be
# caught).  Takes a few minutes; run from /verif.
cd "$(dirname "$0")/.."
PY=/venv/bin/python
echo "== quick checks"; for i in 01 02 03 04 05 06 07 08 09 10 11 12 13 14 15 16 17 18 19 20; do ./check C$i --quiet >/tmp/q.log 2>&1 || { echo "C$i rc=$?"; tail -3 /tmp/q.log; }; done
echo "== selftests"; $PY selftest/harness.py 2>&1 | grep -v "failures': \[\]}" | grep -v "^WARNING"
echo "== neutral"; for d in seeded/neutral/*/; do a=$(basename $d); $PY tools/neutralcheck.py $d $a 2>&1 | grep -v "^WARNING" | grep -v " OK$"; done
echo "== seeds"; for d in seeded/s*/; do id=$(basename $d); p=$(echo $id | sed 's/.*-//'); $PY - "$d" "$p" <<'PYEOF'
import json, subprocess, sys, os, tempfile, shutil
d, prop = sys.argv[1], sys.argv[2]
patch = os.path.abspath(os.path.join(d, 'patch.diff'))
ev = tempfile.mkdtemp()
try:
    subprocess.run(['git', '-C', '/repo', 'apply', patch], check=True, capture_output=True)
    r = subprocess.run(['./check', prop, '--quiet', '--evidence-dir', ev], capture_output=True, text=True)
    print('%s target %s exit %d %s' % (os.path.basename(d.rstrip('/')), prop, r.returncode, '' if r.returncode == 1 else 'NOT CAUGHT BY TARGET'))
finally:
    subprocess.run(['git', '-C', '/repo', 'checkout', '--', '.'])
    shutil.rmtree(ev, ignore_errors=True)
PYEOF
done
echo "== done"
