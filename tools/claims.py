PENDING_REASON = ('check not yet implemented in this session (planned rules: '
                  'DESIGN.md section 3); nothing is claimed until it is')

TRUST = ('Trusted: CPython ast parser; the class-hierarchy call resolution and '
         'receiver typing table of sa/model.py; engine.io behaviour. ')

CLAIMS = {
 'C17': {
  'text': 'Complete for the forwarding clause: every helper method of the '
          'four class-based namespace classes (29 helper/delegate pairs) is '
          'shown, for every parameter it shares with the delegate, to pass '
          'the bare argument to the same-named parameter of the same-named '
          'server/client method (namespace as `namespace or self.namespace`), '
          'to await iff the delegate is a coroutine function and to return '
          'the delegate result; registration binds the object. This is the '
          'property itself for all argument subsets, decided on the code '
          'shape rather than on sampled calls.',
  'note': TRUST + 'Python call-binding semantics as re-implemented in '
          'sa/util.bind_call; delegates are resolved by name on '
          'Server/AsyncServer/Client/AsyncClient.',
  'technique': 'static analysis: forwarding (call-binding) check on the ast '
               'with symbolic single-path evaluation',
 },
}
