PENDING_REASON = ('check not yet implemented in this session (planned rules: '
                  'DESIGN.md section 3); nothing is claimed until it is')

TRUST = ('Trusted: CPython ast parser; the class-hierarchy call resolution and '
         'receiver typing table of sa/model.py; engine.io behaviour. ')

CLAIMS = {
 'C17': {
  'text': 'Complete for the forwarding clause: every helper method of the '
          'four class-based namespace classes (29 helper/delegate pairs) is '
          'shown, for every parameter it shares with the delegate, to pass '
          'the bare argument to the same-named parameter of the same-named '
          'server/client method (namespace as `namespace or self.namespace`), '
          'to await iff the delegate is a coroutine function and to return '
          'the delegate result; registration binds the object. This is the '
          'property itself for all argument subsets, decided on the code '
          'shape rather than on sampled calls.',
  'note': TRUST + 'Python call-binding semantics as re-implemented in '
          'sa/util.bind_call; delegates are resolved by name on '
          'Server/AsyncServer/Client/AsyncClient.',
  'technique': 'static analysis: forwarding (call-binding) check on the ast '
               'with symbolic single-path evaluation',
 },
 'C13': {
  'text': 'Complete over the registry abstraction: the two resolver '
          'functions of server and client are evaluated (symbolic path '
          'enumeration with an oracle over an abstract registry) on all 50 '
          'consistent presence/absence states x {server, client} and on the '
          '4 namespace-handler states, and each row is compared with the '
          'documented precedence and argument prefixing; the four '
          '_trigger_event dispatchers are shown to consult the class-based '
          'namespace only when no function handler was found and the four '
          'trigger_event methods to dispatch to on_<event>. Decides the '
          'routing decision for every registry configuration rather than '
          'the two sampled ones.'
          ' Also: resolver purity - the resolver reads only the registry and its arguments and stores nothing (a cache makes the answer history-dependent).'
          " Also: the handler tables of different namespaces are distinct objects; the legacy one-argument disconnect retry arm (functions and namespace classes) is exactly: TypeError and event == 'disconnect' -> one re-invocation without the last argument, result returned."
          " Also: names that coincide with the catch-all key ('*' as event or namespace name) only reach the catch-all targets, with the name prepended (F14, fixed).",
  'note': TRUST + "Assumes registered handlers are truthy. A resolver rewritten "
          'into a form outside the evaluator (lookup loop, helper in '
          'another module) yields ANALYSIS-ERROR, not a verdict.',
  'technique': 'static analysis: finite-domain decision table by symbolic '
               'path enumeration over the ast',
 },
 'C04': {
  'text': 'Decides the structural clauses: (asyncio) no suspension point '
          'lies between the connected-test and the pre_disconnect mark in '
          'disconnect()/_handle_disconnect(), including inside every '
          'can_disconnect override, which with R2/R3/R6 is the whole '
          'at-most-once argument for a single-threaded event loop; every '
          "path that triggers 'disconnect' is gated by a true "
          'connected-test, marked, and released on the same (sid, '
          'namespace); only two functions trigger it; _handle_connect '
          'admits only served namespaces, refuses None sids without a '
          'handler, sends CONNECT exactly once on the right side of the '
          'handler, refuses with the refusal data and releases membership; '
          'transport loss ends every namespace; ConnectionRefusedError '
          'table. NOT decided: sid freshness (engine.io), threaded races '
          '(C20), delivery after disconnect beyond the room structure.'
          ' Also: a ConnectionRefusedError raised by any invocation of the connect handler (legacy-signature retry included) is contained and handled as a refusal; a refused duplicate CONNECT touches no state keyed by the client.'
          ' Also: a connect handler that failed with another exception has not accepted the client; can_disconnect answers through is_connected; the release after the disconnect handler is local (ignore_queue=True).'
          ' Also: the request environment is removed only where the transport ends; namespace normalised before the sid lookup; ignore_queue selects is_connected vs can_disconnect; local release of a refused sid.'
          " Also: ConnectionRefusedError's message/data table is evaluated on concrete argument displays of 0-4 opaque elements (every path must produce the documented error_args).",
  'note': TRUST + 'asyncio tasks interleave only at awaits that can '
          'suspend (computed as a fixed point over the call graph; abstract '
          'coroutines count as suspending).',
  'technique': 'static analysis: path-sensitive guard/order/pairing and '
               'suspension-window check over the ast and call graph',
 },
 'C05': {
  'text': 'Decides, per packet path, the clauses visible in the code shape: '
          'the server dispatch table over all 7 packet types + unknown (one '
          'arm each, arguments are the decoded packet\'s own fields and the '
          'own transport id, CONNECT_ERROR/unknown rejected); binary '
          'reassembly (dispatch only when complete, buffer entry removed '
          'first, BINARY_ACK to the ack path); the connected-namespace gate '
          'dominating the single handler launch; position-by-position '
          'binding of the background/inline launch; ACK iff handled and id '
          'is not None evaluated over id in {None, 0, positive}; ACK '
          'namespace/id/transport and payload packing; engine.io built with '
          'async_handlers=False. Exactly-once over whole sequences and '
          'cross-client ACK isolation follow from these per-path facts and '
          'are not explored as histories.'
          ' Also: the gate and both sid resolvers read one admission table (rooms[ns][None]) and no second index.'
          ' Also: a started handler task stays strongly referenced under itself; engine.io events are wired to the three handlers; _send_packet sends every frame; class-based namespaces hand the result back.'
          ' Also: per-packet reassembly state (shared C01.R5).',
  'note': TRUST + 'engine.io delivers one client\'s frames in order.',
  'technique': 'static analysis: decision table over packet types and id '
               'domain by symbolic path enumeration, guard dominance, '
               'call-binding',
 },
 'C06': {
  'text': 'Decides the structural clauses: trigger_callback deletes exactly '
          'the looked-up entry before invoking it and treats an unknown id '
          'as a silent no-op (lookup-failure path enumerated); every value '
          'that can be loaded from the callback table and invoked was stored '
          'as a callback parameter, anything else must sit under a '
          'module-private sentinel key (this is the rule that exposed the '
          'id-0 defect, fixed); ids come from one per-client counter created '
          'once; one fresh id per recipient carried by the packet sent to '
          'that recipient; _handle_ack resolves the sid from (own '
          'transport, packet namespace); call() result table over '
          'len in {0,1,2+} and TimeoutError exactly on wait failure. '
          'Histories with reconnects are covered only through C11 cleanup.'
          ' Also: at most one callback invocation per ACK on the continuation where the callback raised.'
          ' Also: call() emits its own event/data/addressee/namespace/ignore_queue with a fresh callback; per-client callback tables are distinct objects.',
  'note': TRUST + 'wire ids cannot be identical to an object() sentinel.',
  'technique': 'static analysis: typestate/order on enumerated paths, '
               'container provenance, decision table',
 },
 'C09': {
  'text': 'Client twin of C05/C06: dispatch table (7 types + unknown) and '
          'reassembly of the client; one handler dispatch and exactly one '
          'ACK iff the event carried an id (id over None/0/positive) with '
          'its namespace and id after the handler; payload packing; '
          'callback typestate in _handle_ack; callback-table provenance '
          '(sentinel key for the counter); per-namespace counter; emit '
          'generates the id for its namespace before building the packet; '
          'call() table. Per packet path, not over sequences.'
          ' Also: the client resolver table over all registry states and its purity (the resolver reads only the registry) are shared from C13.'
          ' Also: wiring of the engine.io events, _send_packet frames, call() forwarding, class-based namespace results (shared C13.R4), per-namespace callback tables distinct.',
  'note': TRUST,
  'technique': 'static analysis: decision tables by symbolic path '
               'enumeration, typestate, provenance',
 },
 'C11': {
  'text': 'Decides that every per-client table is released on every way '
          'out: the per-transport tables of the server and the per-sid '
          'tables of the manager are *derived* from the stores the code '
          'makes (so a newly added table is checked too); each must be '
          'released on every path of _handle_eio_disconnect - exceptional '
          'exits caused by raising application handlers included - or of '
          'basic_disconnect, which must be reachable from transport end; '
          'after pre_disconnect the matching manager.disconnect happens on '
          'every exit; a raising handler does not skip the remaining '
          'namespaces; emptied rooms/namespaces/pending lists are '
          'collected; background-task references are discarded. Memory '
          'growth as a number is NOT decided.'
          ' Also: room membership only with proof that the sid is connected and nothing created before the failing lookup (F11, fixed); statements indexing client-controlled data in the release sequence count as raisers.'
          ' Also: asyncio: a CancelledError of an application coroutine is contained where it is awaited (the transport-loss loop catches Exception only).'
          ' Also: a client is marked as disconnecting once (shared C04.R2).'
          ' Also: no per-client table creates entries on read.',
  'note': TRUST + 'raisers = calls that reach application code over the '
          'call graph.',
  'technique': 'static analysis: must-release pairing over enumerated '
               'paths with exceptional exits, table derivation, call-graph '
               'reachability',
 },
 'C12': {
  'text': 'Decides the mechanisms named by the property: wire-declared '
          'numbers (attachment count, id) never flow into range(), sequence '
          'repetition or sized constructors anywhere in the package '
          '(syntactic taint with a built-in positive control); the '
          'count-exceeded test precedes the append, the count digits are '
          'bounded before int(), the id scanner is bounded and overflow '
          'rejected; per-transport state is indexed only by the handler\'s '
          'own transport id; the packet-type whitelist; decoding precedes '
          'dispatch and its error is not caught in the library; the '
          'connected gate; every answer goes to the sender\'s transport. '
          'Global non-interference over all server states is NOT decided.'
          ' Also: the codec keeps no state outside the packet object (no shared decoder, no globals, no class-attribute writes); the connected-gate itself (is_connected table) is shared from C04.'
          ' Also: a dict with a truthy _placeholder and a num never survives reconstruction as data (it becomes the attachment or the packet fails).'
          ' Also: frames are ASCII JSON (ensure_ascii stays on).'
          ' Also: regular expressions in the codec have no nested unbounded repetition; no class-level mutable state in the packet classes.',
  'note': TRUST + 'engine.io contains exceptions of the message callback.',
  'technique': 'static analysis: taint-to-sink scan, guard dominance on '
               'enumerated paths, key provenance',
 },
 'C16': {
  'text': 'Decides key-derivation agreement of get_session/save_session '
          '(same transport resolution, same namespace key, threaded and '
          'asyncio), the context-manager contract (enter returns and keeps '
          'get_session(sid, ns); exit unconditionally saves that object for '
          'the same sid/ns and does not swallow exceptions) and the '
          'lifetime rule "a session ends with its namespace connection" '
          '(delete at every namespace-end site, or reset on admission). The '
          'lifetime rule is violated on the pinned tree (session survives '
          'DISCONNECT + re-CONNECT of a namespace on one transport): '
          'recorded as known findings F2a/F2b. Privacy across transports '
          'rests on engine.io (trusted).'
          " Also: a refused duplicate CONNECT leaves the live connection's state (session included) untouched (shared C04.R4).",
  'note': TRUST,
  'technique': 'static analysis: provenance of keys on enumerated paths, '
               'pairing rule',
 },
 'C20': {
  'text': 'Decided as lock discipline, not as schedule exploration: in '
          'Server.disconnect and Server._handle_disconnect the '
          'connected-test and the pre_disconnect mark must execute under '
          'one common lock (or inside one manager method that holds its '
          'lock across both). No lock exists in the threaded server or the '
          'managers today, so both sites are reported as known findings '
          'F7a/F7b; a lock that covers only one of the two is reported as a '
          'new violation. This is a necessary condition for the property.'
          ' Also: whoever marks the client runs the handler on every path; the handler and the mark are dominated by a connected-test made in the same function.'
          ' Also: can_disconnect answers through is_connected in every manager (shared C04.R10).'
          ' Also: nothing that can reach the transport or the application runs between the connected-test and the mark.'
          ' Also: the lookups made before the connected-test tolerate a half-removed client.',
  'note': TRUST + 'a repair relying on one GIL-atomic operation is not '
          'recognised.',
  'technique': 'static analysis: lockset (held-lock) check on enumerated '
               'paths',
 },
 'C08': {
  'text': 'Decides the per-step state updates on every path of each client '
          'handler: emit raises BadNamespaceError before any id generation '
          'or send and send/call only go through emit; one CONNECT per '
          'requested namespace with the resolved auth; every per-connection '
          'attribute (namespaces, connected, callbacks, _binary_packet, sid) '
          'is reset on every path of _handle_eio_disconnect; a server '
          'DISCONNECT/CONNECT_ERROR leaves the namespace unlisted on every '
          'normal path and clears connected with the last one; CONNECT '
          'records the sid once; disconnect is reported only from the two '
          'owning functions, once per listed namespace; a failed wait '
          'disconnects before raising and connected is set only when all '
          'namespaces were accepted. Whole histories are NOT explored.'
          ' Also: a packet handler that lowers `connected` closes the transport on the same path (F12, fixed); disconnect() always closes the transport.'
          ' Also: the default namespace list is the duplicate-free union of the two handler registries.'
          ' Also: connect(): transport failure reported to connect_error per requested namespace, retry branch, every wake-up of the namespace wait consumed; transport closed with abort=True from packet handlers; client resolver tables (shared C13).'
          ' Also: the auth payload is resolved once per connection.',
  'note': TRUST,
  'technique': 'static analysis: must-update / guard dominance on '
               'enumerated paths, ownership',
 },
 'C10': {
  'text': 'Decides the policy skeleton, not the numbers: who may start a '
          'reconnection; the start is dominated by `reconnection and '
          "eio.state == 'connected'` and by the absence of a task; connect() "
          'stores each argument and _handle_reconnect replays each to the '
          'same-named parameter with retry=False; on the loop unrolled '
          'twice: one abort wait before every attempt, abort exits without '
          'attempt, the counter equals the attempts made, the give-up test '
          'is exactly `attempts and not (count < attempts)`, success clears '
          'the task, the registry entry is removed on every exit; the k-th '
          'timeout depends on exactly the four parameters and random(), is '
          'doubled k-1 times and compared with the cap; shutdown aborts '
          'then joins. The back-off law and jitter bounds are NOT decided.'
          ' Also: the single-effort guard _reconnect_task has three writers only; it is released on every exit of an effort (F13: known finding on the give-up and abort exits).'
          ' Also: the replayed connection_* attributes are written by connect() only.'
          ' Also: the abort event is cleared at the start of an effort and raised by nothing reachable from the effort itself.',
  'note': TRUST + 'engine.io clears eio.state before notifying an '
          'intentional close.',
  'technique': 'static analysis: path enumeration with bounded unrolling, '
               'forwarding, dependency slice',
 },
 'C19': {
  'text': 'Structure only: the ordering discipline that makes the '
          'producer/consumer hand-off correct - publish then signal; the '
          'input event is cleared only after a wait returned and no wait '
          'happens without an empty-buffer test since the last clear '
          '(receive loop unrolled three times); pop(0) only after a '
          'non-empty test; no foreign writer of the buffer; DisconnectedError '
          'and TimeoutError only with the buffer empty; emit/call gated on '
          'the connected event and flag with SocketIOError looping back. '
          'Interleavings are NOT explored.'
          ' Also: the connected flag / connected event state machine of the three connection handlers, who lowers the flag and who signals the event.'
          ' Also: each successful wait on the input event is consumed; the connected flag is read only after a wait on the connected event.',
  'note': TRUST,
  'technique': 'static analysis: ordering/window rules on enumerated paths',
 },
 'C01': {
  'text': 'Structure only; the round trip over the unbounded packet grammar '
          'and interoperability with an independent codec are NOT decided. '
          'Decided: the binary gate as a complete 36-row decision table '
          '(byte strings only promote EVENT/ACK, everything else raises); '
          'agreement of the three tree walkers on container kinds, bytes '
          'leaf and dict-value recursion; placeholder key agreement and '
          'depth-first numbering (num = len(attachments)-1 after the '
          'append); the encoder layout as a 36-row table over binary x '
          'namespace {None, "/", other} x id x data (order type, count-, '
          'nsp, id, compact JSON; a truthiness test that would drop id 0 is '
          'reported); the attachment hand-back protocol; extraction order '
          'and separators of the scanner agree with the emitter.'
          ' Also: every item of a list is recursed into on both the extracting and the reconstructing side.'
          " Also: the namespace is cut out of the frame with the separators ',' and '?' only.",
  'note': TRUST + 'json fidelity and grammar ambiguities (digit adjacency) '
          'are outside the decided part.',
  'technique': 'static analysis: decision tables by symbolic path '
               'enumeration, writer/reader schema agreement',
 },
 'C02': {
  'text': 'Structure only; value fidelity of nested payloads through '
          'json/msgpack/framing is NOT decided. Decided at every site: emit '
          'packing table (4 sites x 7 kinds of data), dispatch unpacking '
          '(data[0], *data[1:]), ack packing tables (4 sites), call() result '
          'tables (4 sites), callbacks receive *data, frames of a packet are '
          'sent by plain in-order iteration of the encoder\'s list, each of '
          'the 26 packet construction sites names its namespace (ACKs the '
          'incoming id), engine.io is built with async_handlers=False, the '
          'msgpack dict written by _to_dict matches what decode reads, and '
          'no resolved in-package call binds a parameter-named argument to '
          'a different parameter (swapped arguments; positive control).'
          ' Also: with a binary packet pending every path hands the frame to the pending packet (no frame is dropped on the way).'
          ' Also: the decoder rejects no frame because of the value of a decoded number; all four _send_packet hand every frame of the encoded packet to the transport in order.'
          ' Also: optional msgpack fields are left out only under an `is None` test.',
  'note': TRUST + 'engine.io delivers frames in order.',
  'technique': 'static analysis: decision tables, call-binding and schema '
               'agreement over the ast',
 },
 'C03': {
  'text': 'Structure only; the exact recipient set over all membership '
          'histories is NOT decided. Decided: every hand-off to the '
          'transport in (Async)Manager.emit is inside the loop over '
          'get_participants(own namespace, to or room), addressed to that '
          'iteration\'s transport id and guarded by `sid not in skip_sid` '
          'with skip_sid normalised to a list; every first-level index of '
          'rooms is the function\'s namespace parameter (21 accesses); '
          'rooms is mutated only by basic_enter_room/basic_leave_room '
          'package-wide; each emit layer resolves `to or room`; '
          'basic_disconnect leaves every room holding the sid with '
          'membership as the only filter, close_room empties the room, '
          'get_rooms hides only room None; recipients are accumulated in a '
          'mapping keyed by sid (delivery once per client).'
          ' Also: a refused connection keeps no membership (shared C04.R4); the room list is split into first element and rest; the collected room names reach the loop that leaves them.',
  'note': TRUST + 'bidict semantics trusted.',
  'technique': 'static analysis: guard dominance and provenance on '
               'enumerated paths, ownership, key discipline',
 },
 'C07': {
  'text': 'Structure only; equivalence of a cluster with one server over '
          'all placements and channel delays is NOT decided. Decided: '
          'publisher/listener/handler schema agreement (7 published '
          'literals per class, every field a handler reads is written, '
          'host_id on every non-callback message, one arm per method and a '
          'writer per arm); the echo filter evaluated per method with an '
          'own/foreign host oracle; callbacks complete only on the '
          'addressed host and are relayed with the token\'s host; queued '
          'operations apply locally once then publish once, ignore_queue '
          'stays local, enter/leave are local xor publish; remote room '
          'operations are guarded by is_connected; callback token shape '
          '(room, namespace, id), arity test and relay binding.'
          ' Also: every path of a well-formed remote message reaches its handler exactly once whatever else the listener tests; the host id compared by the echo filter is drawn afresh per manager object.'
          ' Also: the disconnect on the owning host ends with a local release (shared C04.R2).'
          " Also: the ignore_queue branches hand this call's own arguments to the base class.",
  'note': TRUST + 'the backend channel is FIFO and reaches every host.',
  'technique': 'static analysis: writer/reader schema agreement, decision '
               'table over message method x origin, pairing/order on paths',
 },
 'C15': {
  'text': 'Decides containment: with every call site of the per-message '
          'body and the listen iterator allowed to raise an arbitrary '
          'Exception, no path leaves _thread; handlers neither break, '
          'return nor re-raise (asyncio: CancelledError only); each decoder '
          'sits alone in a catch-all try and JSON is still tried after a '
          'failed pickle; unknown methods are ignored; own messages are not '
          're-applied and foreign acknowledgements complete nothing; the '
          'Redis (thorough: Kombu, AioPika) listen loops stay in the loop '
          'with a capped back-off and _publish makes at most two attempts.'
          ' Also: the handlers that keep the listener and the listen/publish retry loops alive read no possibly-unbound name (definite assignment).'
          ' Also: no non-reentrant lock is held while application code can run.',
  'note': TRUST + 'logger calls do not raise.',
  'technique': 'static analysis: exceptional-exit enumeration over '
               'structured paths (every call a raiser)',
 },
 'C18': {
  'text': 'Decides: the credential decision of admin_connect as a table '
          'over auth kind {falsy, dict, list, predicate, coroutine '
          'predicate} x {match, no match} - accepted only when auth is '
          'falsy or the comparison that belongs to the kind is true, '
          'refused before any side effect otherwise; every registration of '
          'an admin handler that can emit outside the admin namespace, '
          'change rooms or disconnect is dominated by `not read_only` and '
          'all registrations are on the admin namespace; each wrapper '
          'installed by instrument() (derived from its save/replace pairs: '
          '12 per class) calls the saved original exactly once with its own '
          'parameters and returns its result; the instrumentation emits '
          'only on the admin namespace. Timing and failures inside the '
          'instrumentation are NOT decided.'
          ' Also: tables the instrumentation hangs on the server are filled before the original runs (the deleting wrapper arm cannot fail in front of the application).'
          " Also: the server's connect path contains refusals and treats a failed handler (raising predicate) as not accepted (shared C04.R9)."
          ' Also: a wrapper indexes no server state before the original has run; instrument() forwards its configuration parameter by parameter.'
          ' Also: the instrumentation never reads user sessions.',
  'note': TRUST + 'Python equality decides "equals the credentials".',
  'technique': 'static analysis: decision table, guard dominance, wrapper '
               'forwarding check',
 },
 'C14': {
  'text': 'Decided as twin agreement of the two source texts, which is the '
          'mechanism the project itself relies on, not as a differential '
          'run: for the 7 class pairs (thorough: + Redis managers and admin '
          'classes) method sets and signatures agree, and every twin body '
          'reduces to the same normal form under the regular '
          'sync<->asyncio translation (await/async erasure, timed-wait '
          'idioms, CancelledError handlers, coroutine-function dual arms, '
          'task fan-out, returns sunk into branches, dead stores); the '
          'remaining irregular differences are a frozen accepted-drift '
          'table (one statement wide, reason each); because the normal '
          'form erases await, a separate rule checks that every call of a '
          'coroutine function in the asyncio classes is awaited or '
          'scheduled. A change made to one twin only - or to both '
          'differently - is reported as TWIN-DRIFT with both sites.',
  'note': TRUST + 'assumes the asyncio primitives of the idiom table behave '
          'like their threaded counterparts; a one-sided behaviour-'
          'preserving refactoring not absorbed by the normal form is '
          'reported although parity holds (stated residual risk).',
  'technique': 'static analysis: twin normal form + structural diff, '
               'await-discipline lint over resolved callees',
 },
}

# round 8 additions (appended so that the history of each claim stays visible)
_ROUND8 = {
 'C02': ' Also: every bytes leaf travels as its own attachment, numbered by '
        'the appends made so far (shared C01.R3) - equal or repeated blobs '
        'are not merged.',
 'C04': ' Also: exception names that coincide with builtins '
        '(ConnectionRefusedError, ConnectionError) resolve, through the '
        'imports of the server modules, to the package\'s classes.',
 'C06': ' Also: a refused connection releases the client on every refusing '
        'path, for both settings of always_connect (shared C04.R4) - the '
        'release is what drops callbacks a connect handler left '
        'outstanding; the remove-and-get idioms of trigger_callback are '
        'recognised and an unguarded callbacks[sid] is reported.',
 'C07': ' Also: channel codec agreement - the listener\'s own decode of '
        'channel bytes is the unrestricted inverse of the publishers\' '
        'pickle.dumps (no Unpickler subclass overriding find_class / '
        'persistent_load on the listener\'s path).',
 'C10': ' Also: both ways an attempt fails (ConnectionError, ValueError) '
        'are followed, and the attempt limit is consulted between any two '
        'consecutive attempts; ConnectionError / TimeoutError named in the '
        'client modules are the package\'s classes, not the builtins.',
 'C11': ' Also: sets and lists created empty in the constructors are '
        'derived per-client tables as well (composite keys containing the '
        'transport id); a release that exists only inside a loop does not '
        'cover the path on which the loop runs zero times.',
 'C12': ' Also: the msgpack decoder is called without max_* limits, or '
        'with limits computed from len(frame) - msgpack\'s default bounds '
        'every declared length by the bytes received.',
 'C14': ' A synchronous private helper that both twins inherit is inlined '
        'on both sides (second attempt) before drift is reported.',
 'C15': ' Also: a callback message for an unknown client or id changes no '
        'manager state (shared C06.R1; setdefault counts as a write) - an '
        'empty callbacks[sid] left behind makes every later '
        'emit-with-callback for that client fail in the listener.',
 'C18': ' Also: the refusal raised by admin_connect is the package\'s '
        'ConnectionRefusedError (resolved through the module\'s imports), '
        'the class the server\'s connect path catches - not the builtin of '
        'the same name.',
 'C19': ' Also: TimeoutError / DisconnectedError raised by the simple '
        'clients resolve to the package\'s classes.',
}
for _k, _v in _ROUND8.items():
    CLAIMS[_k]['text'] += _v

_ROUND9 = {
 'C03': ' Also: a transport that ends leaves every namespace - the handler '
        'containing a failing namespace lies inside the loop, mark and '
        'release are paired on every exit (shared C11.R2).',
 'C05': ' Also: who may write the per-transport reassembly buffer '
        '(_binary_packet): the message handler and the transport-end '
        'release only.',
 'C06': ' Also: who may touch the callbacks table: __init__, '
        '_generate_ack_id, trigger_callback, basic_disconnect (and private '
        'helpers only they call); log statements excepted.',
 'C07': ' Also: the pub/sub layer does not touch the callbacks table itself '
        '(shared C06.R8).',
 'C11': ' Also: the handler that contains a failing namespace of an ending '
        'transport lies inside the loop over the namespaces.',
 'C15': ' Also: every (re)start of the Redis backends\' _listen subscribes '
        'the pubsub object it is about to iterate, on every path.',
 'C20': ' Also: is_connected reads the disconnecting mark before the '
        'membership (the reader order that matches basic_disconnect\'s '
        'writer order).',
}
for _k, _v in _ROUND9.items():
    CLAIMS[_k]['text'] += _v
