PENDING_REASON = ('check not yet implemented in this session (planned rules: '
                  'DESIGN.md section 3); nothing is claimed until it is')

TRUST = ('Trusted: CPython ast parser; the class-hierarchy call resolution and '
         'receiver typing table of sa/model.py; engine.io behaviour. ')

CLAIMS = {
 'C17': {
  'text': 'Complete for the forwarding clause: every helper method of the '
          'four class-based namespace classes (29 helper/delegate pairs) is '
          'shown, for every parameter it shares with the delegate, to pass '
          'the bare argument to the same-named parameter of the same-named '
          'server/client method (namespace as `namespace or self.namespace`), '
          'to await iff the delegate is a coroutine function and to return '
          'the delegate result; registration binds the object. This is the '
          'property itself for all argument subsets, decided on the code '
          'shape rather than on sampled calls.',
  'note': TRUST + 'Python call-binding semantics as re-implemented in '
          'sa/util.bind_call; delegates are resolved by name on '
          'Server/AsyncServer/Client/AsyncClient.',
  'technique': 'static analysis: forwarding (call-binding) check on the ast '
               'with symbolic single-path evaluation',
 },
 'C13': {
  'text': 'Complete over the registry abstraction: the two resolver '
          'functions of server and client are evaluated (symbolic path '
          'enumeration with an oracle over an abstract registry) on all 50 '
          'consistent presence/absence states x {server, client} and on the '
          '4 namespace-handler states, and each row is compared with the '
          'documented precedence and argument prefixing; the four '
          '_trigger_event dispatchers are shown to consult the class-based '
          'namespace only when no function handler was found and the four '
          'trigger_event methods to dispatch to on_<event>. Decides the '
          'routing decision for every registry configuration rather than '
          'the two sampled ones.',
  'note': TRUST + "Assumes event/namespace names differ from the literal "
          "'*' and registered handlers are truthy. A resolver rewritten "
          'into a form outside the evaluator (lookup loop, helper in '
          'another module) yields ANALYSIS-ERROR, not a verdict.',
  'technique': 'static analysis: finite-domain decision table by symbolic '
               'path enumeration over the ast',
 },
 'C04': {
  'text': 'Decides the structural clauses: (asyncio) no suspension point '
          'lies between the connected-test and the pre_disconnect mark in '
          'disconnect()/_handle_disconnect(), including inside every '
          'can_disconnect override, which with R2/R3/R6 is the whole '
          'at-most-once argument for a single-threaded event loop; every '
          "path that triggers 'disconnect' is gated by a true "
          'connected-test, marked, and released on the same (sid, '
          'namespace); only two functions trigger it; _handle_connect '
          'admits only served namespaces, refuses None sids without a '
          'handler, sends CONNECT exactly once on the right side of the '
          'handler, refuses with the refusal data and releases membership; '
          'transport loss ends every namespace; ConnectionRefusedError '
          'table. NOT decided: sid freshness (engine.io), threaded races '
          '(C20), delivery after disconnect beyond the room structure.',
  'note': TRUST + 'asyncio tasks interleave only at awaits that can '
          'suspend (computed as a fixed point over the call graph; abstract '
          'coroutines count as suspending).',
  'technique': 'static analysis: path-sensitive guard/order/pairing and '
               'suspension-window check over the ast and call graph',
 },
}
