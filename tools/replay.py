"""Replay every recorded patch against the checks, in parallel, on scratch
copies of the package (the working tree of /repo is not touched):

  * seeded/s*-Cxx/patch.diff   must be reported by its target property
  * seeded/neutral/*/neutral_*.diff   must leave all 20 checks silent

usage: replay.py [seeds|neutral|all] [-j N]
Writes seeded/replay.json and exits 1 when an expectation fails.
"""
import glob
import io
import json
import os
import shutil
import subprocess
import sys
import tempfile
from contextlib import redirect_stdout
from multiprocessing import Pool

VERIF = os.path.dirname(os.path.dirname(os.path.abspath(__file__)))
sys.path.insert(0, VERIF)
PROPS = ['C%02d' % i for i in range(1, 21)]


def snapshot():
    base = tempfile.mkdtemp(prefix='sa_replaybase_')
    subprocess.run('git -C /repo archive HEAD src/socketio | tar -x -C %s'
                   % base, shell=True, check=True)
    return base


def run(job):
    kind, name, patch, target, base = job
    from check import run_property
    from sa.model import AnalysisError
    tmp = tempfile.mkdtemp(prefix='sa_replay_')
    try:
        shutil.copytree(os.path.join(base, 'src'), os.path.join(tmp, 'src'))
        r = subprocess.run(['git', 'apply', patch], cwd=tmp,
                           capture_output=True, text=True)
        if r.returncode != 0:
            return kind, name, {'skipped': 'patch does not apply: ' +
                                r.stderr.strip()[:120]}
        res = {}
        for prop in PROPS:
            buf = io.StringIO()
            try:
                with redirect_stdout(buf):
                    rc = run_property(prop, 'quick', tmp,
                                      evidence_dir=os.path.join(tmp, 'ev'),
                                      quiet=True, selftest=False)
            except AnalysisError as e:
                res[prop] = ['ANALYSIS-ERROR ' + str(e)[:120]]
                continue
            except Exception as e:  # noqa
                res[prop] = ['EXC ' + repr(e)[:120]]
                continue
            if rc == 1:
                vp = os.path.join(tmp, 'ev', prop + '.violations.json')
                rules = []
                if os.path.exists(vp):
                    rules = sorted({v['rule'] for v in
                                    json.load(open(vp))['violations']})
                res[prop] = rules
            elif rc != 0:
                res[prop] = ['exit %s' % rc]
        return kind, name, {'target': target, 'reported': res}
    finally:
        shutil.rmtree(tmp, ignore_errors=True)


def main():
    what = sys.argv[1] if len(sys.argv) > 1 and not \
        sys.argv[1].startswith('-') else 'all'
    jobs = 16
    if '-j' in sys.argv:
        jobs = int(sys.argv[sys.argv.index('-j') + 1])
    base = snapshot()
    work = []
    if what in ('seeds', 'all'):
        for d in sorted(glob.glob(os.path.join(VERIF, 'seeded', 's*-C*'))):
            sid = os.path.basename(d)
            work.append(('seed', sid, os.path.join(d, 'patch.diff'),
                         sid.split('-')[-1], base))
    if what in ('neutral', 'all'):
        for p in sorted(glob.glob(os.path.join(VERIF, 'seeded', 'neutral',
                                               '*', 'neutral_*.diff'))):
            if os.path.getsize(p) == 0:
                continue
            work.append(('neutral', '%s/%s' % (
                os.path.basename(os.path.dirname(p)), os.path.basename(p)),
                p, None, base))
    if '--only' in sys.argv:
        pat = sys.argv[sys.argv.index('--only') + 1]
        work = [w for w in work if pat in w[1]]
    bad = 0
    out = {'seeds': {}, 'neutral': {}}
    try:
        with Pool(jobs, maxtasksperchild=8) as pool:
            for kind, name, res in pool.imap_unordered(run, work):
                out['seeds' if kind == 'seed' else 'neutral'][name] = res
                if 'skipped' in res:
                    print('SKIPPED', name, res['skipped'])
                    bad += 1
                elif kind == 'seed':
                    rep = res['reported'].get(res['target'], [])
                    ok = bool(rep) and not any(
                        x.startswith(('ANALYSIS-ERROR', 'EXC', 'exit'))
                        for x in rep)
                    if not ok:
                        bad += 1
                        print('SEED NOT CAUGHT BY TARGET', name,
                              res['reported'])
                elif res['reported']:
                    bad += 1
                    print('NEUTRAL ALARM', name, res['reported'])
    finally:
        shutil.rmtree(base, ignore_errors=True)
    head = subprocess.run(['git', '-C', '/repo', 'rev-parse', 'HEAD'],
                          capture_output=True, text=True).stdout.strip()
    out['repo_head'] = head
    out['seeds'] = dict(sorted(out['seeds'].items()))
    out['neutral'] = dict(sorted(out['neutral'].items()))
    if '--only' not in sys.argv:
        json.dump(out, open(os.path.join(VERIF, 'seeded', 'replay.json'),
                            'w'), indent=1)
    print('replayed %d seeds, %d neutral patches; %d problem(s)' % (
        len(out['seeds']), len(out['neutral']), bad))
    return 1 if bad else 0


if __name__ == '__main__':
    sys.exit(main())
