"""Self-test of the checkers: every rule is shown to fire on a scratch copy
of the package with one instance broken (B variants) and to stay silent on
behaviour-preserving rewrites (N variants).  Variants are source edits applied
to a temporary copy of /repo/src/socketio (outside /repo and /verif, removed
afterwards); the edited module must still compile; the rule is then re-run
*statically* on the copy.  Nothing of the package is executed.

A variant whose anchor text is not present in the current tree is reported as
'stale' and skipped (the tree changed under it); it is not a failure.
"""
import importlib
import io
import json
import os
import shutil
import sys
import tempfile
from contextlib import redirect_stdout
from multiprocessing import Pool

HERE = os.path.dirname(os.path.abspath(__file__))
VERIF = os.path.dirname(HERE)
if VERIF not in sys.path:
    sys.path.insert(0, VERIF)


class V:
    def __init__(self, vid, kind, file, old, new, rule=None, count=1,
                 note='', edits=None, patch=None):
        self.vid = vid
        self.kind = kind          # 'B' breaking, 'N' neutral
        self.patch = patch        # unified diff applied with `git apply`
        self.edits = edits or ([(file, old, new, count)] if file else [])
        self.rule = rule          # rule id expected among the violations
        self.note = note


def _apply(variant, repo, dst):
    src = os.path.join(repo, 'src', 'socketio')
    pkg = os.path.join(dst, 'src', 'socketio')
    os.makedirs(os.path.dirname(pkg), exist_ok=True)
    shutil.copytree(src, pkg, ignore=shutil.ignore_patterns('__pycache__'))
    if variant.patch:
        import subprocess
        r = subprocess.run(['git', 'apply', variant.patch], cwd=dst,
                           capture_output=True, text=True)
        if r.returncode != 0:
            return 'stale: patch does not apply (%s)' % r.stderr.strip()[:80]
        return None
    for file, old, new, count in variant.edits:
        p = os.path.join(pkg, file)
        with open(p, encoding='utf-8') as f:
            s = f.read()
        if s.count(old) != count:
            return 'stale: %r occurs %d times in %s (expected %d)' % (
                old[:50], s.count(old), file, count)
        s = s.replace(old, new)
        try:
            compile(s, p, 'exec')
        except SyntaxError as e:
            return 'variant does not compile: %s' % e
        with open(p, 'w', encoding='utf-8') as f:
            f.write(s)
    return None


def _run_one(job):
    prop, variant, repo = job
    from check import run_property
    from sa.model import AnalysisError
    tmp = tempfile.mkdtemp(prefix='sa_selftest_')
    try:
        err = _apply(variant, repo, tmp)
        if err:
            return (variant.vid, variant.kind, 'stale', err)
        buf = io.StringIO()
        try:
            with redirect_stdout(buf):
                rc = run_property(prop, 'quick', tmp,
                                  evidence_dir=os.path.join(tmp, 'ev'),
                                  quiet=True, selftest=False)
        except AnalysisError as e:
            rc = 2
            buf.write('ANALYSIS-ERROR %s' % e)
        except Exception as e:    # noqa
            rc = 3
            buf.write('EXC %r' % e)
        rules = []
        vp = os.path.join(tmp, 'ev', prop + '.violations.json')
        if os.path.exists(vp):
            with open(vp) as f:
                rules = sorted({v['rule'] for v in
                                json.load(f)['violations']})
        return (variant.vid, variant.kind, rc, rules,
                buf.getvalue()[-600:])
    finally:
        shutil.rmtree(tmp, ignore_errors=True)


def recorded_variants(prop):
    """the confirmed seeded changes whose target is `prop` (must be
    reported) and the recorded behaviour-preserving refactorings that touch
    one of the property's anchor files (must stay silent)"""
    import glob
    out = []
    for d in sorted(glob.glob(os.path.join(VERIF, 'seeded', 's*-*'))):
        try:
            meta = json.load(open(os.path.join(d, 'meta.json')))
        except Exception:
            continue
        if meta.get('property') == prop and meta.get('confirmed'):
            out.append(V('seed:' + os.path.basename(d), 'B', None, None,
                         None, patch=os.path.join(d, 'patch.diff')))
    files = set()
    for line in open(os.path.join(VERIF, 'properties.jsonl')):
        p = json.loads(line)
        if p['id'] == prop:
            files = {os.path.basename(f) for f in p['anchors']['files']}
    for pf in sorted(glob.glob(os.path.join(VERIF, 'seeded', 'neutral', '*',
                                            'neutral_*.diff'))):
        touched = {os.path.basename(l.split(' b/')[-1].strip())
                   for l in open(pf) if l.startswith('diff --git')}
        if touched & files:
            out.append(V('neutral:%s/%s' % (
                os.path.basename(os.path.dirname(pf)),
                os.path.basename(pf)), 'N', None, None, None, patch=pf))
    return out


def variants_for(prop, recorded=True):
    try:
        mod = importlib.import_module('selftest.variants.' + prop.lower())
        vs = list(mod.VARIANTS)
    except ModuleNotFoundError:
        vs = []
    if recorded:
        vs += recorded_variants(prop)
    return vs


def run_for(prop, repo='/repo', jobs=16):
    vs = variants_for(prop)
    res = {'breaking': 0, 'breaking_detected': 0, 'neutral': 0,
           'neutral_silent': 0, 'stale': 0, 'failures': [], 'details': []}
    if not vs:
        return res
    work = [(prop, v, repo) for v in vs]
    if jobs > 1 and len(work) > 1:
        with Pool(min(jobs, len(work))) as pool:
            outs = pool.map(_run_one, work)
    else:
        outs = [_run_one(w) for w in work]
    byid = {v.vid: v for v in vs}
    for o in outs:
        vid, kind, rc = o[0], o[1], o[2]
        v = byid[vid]
        if rc == 'stale':
            res['stale'] += 1
            res['details'].append({'variant': vid, 'result': o[3]})
            continue
        rules = o[3]
        if kind == 'B':
            res['breaking'] += 1
            good = rc == 1 and (v.rule is None or v.rule in rules)
            if good:
                res['breaking_detected'] += 1
            else:
                res['failures'].append(
                    '%s %s: breaking variant not reported as expected '
                    '(exit %s, rules %s, expected %s) %s'
                    % (prop, vid, rc, rules, v.rule, o[4][-300:]))
            res['details'].append({'variant': vid, 'kind': 'B', 'exit': rc,
                                   'rules': rules})
        else:
            res['neutral'] += 1
            if rc == 0:
                res['neutral_silent'] += 1
            else:
                res['failures'].append(
                    '%s %s: neutral variant raised an alarm (exit %s, rules '
                    '%s) %s' % (prop, vid, rc, rules, o[4][-300:]))
            res['details'].append({'variant': vid, 'kind': 'N', 'exit': rc,
                                   'rules': rules})
    return res


if __name__ == '__main__':
    props = sys.argv[1:] or ['C%02d' % i for i in range(1, 21)]
    bad = 0
    for p in props:
        r = run_for(p)
        print(p, {k: v for k, v in r.items() if k not in ('details',)})
        bad += len(r['failures'])
    sys.exit(1 if bad else 0)
