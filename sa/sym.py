"""Symbolic path enumeration over the structured control flow of one function.

The package uses only structured statements, so paths are enumerated directly
on the syntax tree.  Along a path the executor keeps

* an environment mapping local names to symbolic values (ast expressions in
  which locals have been replaced by what they were assigned; results of calls
  are bound to *value symbols* `name§k` whose definition is kept in
  `Run.symdefs`, so two evaluations of the same call text stay distinct),
* the ordered list of events (calls, awaits, stores, deletes, yields, ...),
* the path condition: normalised atoms with polarity.

Branches whose atom is already decided on the path (and has not been
invalidated by a store / an impure call) follow the consistent arm only.
Loops are unrolled up to a bound; designated *raiser* calls fork an
exceptional continuation that is routed through try/except/finally.

Nothing is executed: this is enumeration of syntactic paths with a symbolic
store.
"""
import ast
import copy

from .model import AnalysisError, body_of

SYM = '§'   # separator used in value-symbol names:  name§k

PURE_BUILTINS = {
    'isinstance', 'len', 'callable', 'hasattr', 'getattr', 'set', 'list',
    'tuple', 'dict', 'str', 'int', 'float', 'bool', 'bytes', 'type', 'id',
    'sorted', 'reversed', 'min', 'max', 'abs', 'repr', 'any', 'all', 'iter',
    'enumerate', 'zip', 'range', 'frozenset', 'issubclass', 'format',
}
PURE_METHODS = {'get', 'keys', 'values', 'items', 'copy', 'format', 'find',
                'isdigit', 'startswith', 'endswith', 'encode', 'decode',
                'lower', 'upper', 'union', 'is_set', 'iscoroutinefunction',
                'iscoroutine', 'isoformat', 'join_'}


def U(node):
    return ast.unparse(node) if node is not None else 'None'


def const(v):
    return ast.Constant(value=v)


def is_const(n, v=...):
    return isinstance(n, ast.Constant) and (v is ... or (
        n.value is v if v is None or isinstance(v, bool) else n.value == v))


def attr_path(n):
    """'self.a.b' for pure Name/Attribute chains, else None."""
    parts = []
    while isinstance(n, ast.Attribute):
        parts.append(n.attr)
        n = n.value
    if isinstance(n, ast.Name):
        parts.append(n.id)
        return '.'.join(reversed(parts))
    return None


def base_path(n):
    """Attribute path underlying a Subscript/Attribute/Call-on chain:
    self.rooms[ns][room] -> 'self.rooms'."""
    while True:
        if isinstance(n, ast.Subscript):
            n = n.value
        elif isinstance(n, ast.Call) and isinstance(n.func, ast.Attribute):
            n = n.func.value
        else:
            break
    return attr_path(n)


class Event:
    __slots__ = ('kind', 'node', 'expr', 'idx', 'loops', 'trys', 'held',
                 'extra', 'maybe')

    def __init__(self, kind, node, expr, loops, trys, held, extra=None,
                 maybe=False):
        self.kind = kind      # call await store del yield iter with def
        self.node = node      # original ast node
        self.expr = expr      # substituted ast (see kinds)
        self.idx = -1
        self.loops = loops    # tuple of (loop node, iteration)
        self.trys = trys      # tuple of (try node, part)
        self.held = held      # tuple of substituted with-context texts
        self.extra = extra
        self.maybe = maybe    # inside a comprehension / short-circuit operand

    @property
    def lineno(self):
        return getattr(self.node, 'lineno', 0)

    def callee(self):
        """last attribute / name of the called function"""
        if self.kind != 'call':
            return None
        f = self.expr.func
        if isinstance(f, ast.Attribute):
            return f.attr
        if isinstance(f, ast.Name):
            return f.id
        return None

    def recv(self):
        if self.kind == 'call' and isinstance(self.expr.func, ast.Attribute):
            return U(self.expr.func.value)
        return None

    def __repr__(self):
        return '<%s %s @%d>' % (self.kind, U(self.expr)[:70], self.lineno)


class Cond:
    __slots__ = ('atom', 'pol', 'at', 'deps', 'volatile', 'node', 'valid')

    def __init__(self, atom, pol, at, deps, volatile, node):
        self.atom = atom      # normalised ast (positive form)
        self.pol = pol
        self.at = at          # number of events before the test completed
        self.deps = deps
        self.volatile = volatile
        self.node = node
        self.valid = True

    @property
    def text(self):
        return U(self.atom)

    def __repr__(self):
        return '(%s)=%s' % (self.text, self.pol)


class State:
    __slots__ = ('env', 'events', 'conds', 'loops', 'trys', 'held', 'exc',
                 'steps', '_caller_env')

    def __init__(self):
        self.env = {}
        self.events = []
        self.conds = []
        self.loops = ()
        self.trys = ()
        self.held = ()
        self.exc = None       # current exception while inside a handler
        self.steps = 0

    def fork(self):
        s = State.__new__(State)
        s.env = dict(self.env)
        s.events = list(self.events)
        s.conds = [copy.copy(c) for c in self.conds]
        s.loops = self.loops
        s.trys = self.trys
        s.held = self.held
        s.exc = self.exc
        s.steps = self.steps
        if hasattr(self, '_caller_env'):
            s._caller_env = self._caller_env
        return s


class Path:
    def __init__(self, st, exit_kind, value=None, origin=None):
        self.events = st.events
        self.conds = st.conds
        self.env = st.env
        self.exit = exit_kind   # return | raise | fall | exc | cut
        self.value = value      # return value / raised expr (substituted)
        self.origin = origin    # for 'exc': the raiser Event
        self.types = None       # for 'exc': exception names (None = any)

    @property
    def normal(self):
        return self.exit in ('return', 'fall')

    def calls(self, name=None, recv=None):
        return [e for e in self.events if e.kind == 'call' and
                (name is None or e.callee() == name or
                 (isinstance(name, (set, tuple, list, frozenset)) and
                  e.callee() in name)) and
                (recv is None or e.recv() == recv)]

    def conds_before(self, ev):
        return [c for c in self.conds if c.at <= ev.idx]

    def describe(self):
        cs = ' & '.join(('' if c.pol else 'not ') + '(' + c.text + ')'
                        for c in self.conds) or 'true'
        return '[%s] exit=%s' % (cs, self.exit)


class Signal:
    __slots__ = ('kind', 'value', 'origin', 'types')

    def __init__(self, kind, value=None, origin=None, types=None):
        self.kind = kind      # return raise break continue cut
        self.value = value
        self.origin = origin  # raiser Event for implicit exceptions
        self.types = types    # set of names, or None = unknown / any


STATS = {'functions_enumerated': 0, 'paths': 0, 'events': 0,
         'helpers_inlined': 0, 'paths_cut_at_loop_bound': 0}

CATCH_ALL = {'Exception', 'BaseException'}
NOT_EXCEPTION = {'CancelledError', 'KeyboardInterrupt', 'SystemExit',
                 'GeneratorExit'}


def _plain_tuple(n):
    return isinstance(n, ast.Tuple) and not any(
        isinstance(e, ast.Starred) for e in n.elts)


def _known_truth(n):
    if isinstance(n, ast.Constant):
        return bool(n.value)
    if _plain_tuple(n):
        return bool(n.elts)
    return None


class _FoldTuple(ast.NodeTransformer):
    """constant folding over tuple displays (immutable, so what the display
    says stays true): len / tuple() / constant index and slice / and-or and
    conditional expressions whose deciding operand is a display or a
    constant / comparisons of two numeric constants.  Used where a rule binds
    a variadic parameter to a display of opaque elements (decision tables
    over the number of arguments)."""

    def visit_Call(self, n):
        self.generic_visit(n)
        if isinstance(n.func, ast.Name) and len(n.args) == 1 and \
                not n.keywords and _plain_tuple(n.args[0]):
            if n.func.id == 'len':
                return ast.Constant(len(n.args[0].elts))
            if n.func.id == 'tuple':
                return n.args[0]
        return n

    def visit_Subscript(self, n):
        self.generic_visit(n)
        if _plain_tuple(n.value) and isinstance(n.ctx, ast.Load):
            e = n.value.elts
            sl = n.slice
            if isinstance(sl, ast.Constant) and isinstance(sl.value, int) \
                    and -len(e) <= sl.value < len(e):
                return e[sl.value]
            if isinstance(sl, ast.Slice) and sl.step is None and all(
                    b is None or (isinstance(b, ast.Constant) and
                                  isinstance(b.value, int))
                    for b in (sl.lower, sl.upper)):
                lo = sl.lower.value if sl.lower else None
                hi = sl.upper.value if sl.upper else None
                return ast.Tuple(elts=list(e[lo:hi]), ctx=ast.Load())
        return n

    def visit_BoolOp(self, n):
        self.generic_visit(n)
        vals = list(n.values)
        is_and = isinstance(n.op, ast.And)
        while len(vals) > 1:
            t = _known_truth(vals[0])
            if t is None:
                break
            if t == is_and:
                vals = vals[1:]       # and: true operand drops; or: false
            else:
                return vals[0]        # short circuit on the deciding value
        if len(vals) == 1:
            return vals[0]
        return ast.BoolOp(op=n.op, values=vals)

    def visit_IfExp(self, n):
        self.generic_visit(n)
        t = _known_truth(n.test)
        if t is None:
            return n
        return n.body if t else n.orelse

    def visit_Compare(self, n):
        self.generic_visit(n)
        if len(n.ops) == 1 and isinstance(n.left, ast.Constant) and \
                isinstance(n.comparators[0], ast.Constant) and \
                isinstance(n.left.value, (int, float)) and \
                isinstance(n.comparators[0].value, (int, float)):
            a, b = n.left.value, n.comparators[0].value
            op = n.ops[0]
            r = {ast.Eq: a == b, ast.NotEq: a != b, ast.Lt: a < b,
                 ast.LtE: a <= b, ast.Gt: a > b, ast.GtE: a >= b}.get(
                     type(op))
            if r is not None:
                return ast.Constant(r)
        return n


def fold_tuple(node):
    if node is None or not any(isinstance(x, ast.Tuple)
                               for x in ast.walk(node)):
        return node
    return _FoldTuple().visit(copy.deepcopy(node))


class Run:
    """One symbolic enumeration of a function body."""

    def __init__(self, func_node, *, oracle=None, raiser=None, max_iter=2,
                 max_paths=20000, stable=None, params_env=None,
                 pure_calls=None, body=None, loop_iters=None,
                 declared_raises=False, inline_resolver=None,
                 stmt_raiser=None):
        self.node = func_node
        self.oracle = oracle            # f(atom_ast, run) -> True/False/None
        self.raiser = raiser            # f(Event) -> None | set(names) | '*'
        self.max_iter = max_iter
        self.loop_iters = loop_iters or {}   # lineno -> max iterations
        self.max_paths = max_paths
        self.stable = stable or (lambda attr: False)
        self.pure_calls = pure_calls or set()
        self.declared_raises = declared_raises
        self.stmt_raiser = stmt_raiser  # f(stmt) -> None | set(names) | '*'
        self.inline_resolver = inline_resolver
        self.inline_depth = 0
        self.inlined = []
        self.yield_hooks = []
        self.symdefs = {}
        self.counter = 0
        self.cut = 0
        st = State()
        if isinstance(func_node, (ast.FunctionDef, ast.AsyncFunctionDef)):
            a = func_node.args
            for p in a.posonlyargs + a.args + a.kwonlyargs:
                st.env[p.arg] = ast.Name(id=p.arg, ctx=ast.Load())
            if a.vararg:
                st.env[a.vararg.arg] = ast.Name(id=a.vararg.arg,
                                                ctx=ast.Load())
            if a.kwarg:
                st.env[a.kwarg.arg] = ast.Name(id=a.kwarg.arg, ctx=ast.Load())
            stmts = body_of(func_node)
        else:
            stmts = func_node
        if body is not None:
            stmts = body
        if params_env:
            st.env.update(params_env)
        self.paths = []
        outs = self.block(stmts, st)
        for st2, sig in outs:
            if sig is None:
                self.paths.append(Path(st2, 'fall'))
            elif sig.kind == 'return':
                self.paths.append(Path(st2, 'return', sig.value))
            elif sig.kind == 'raise':
                if sig.origin is not None:
                    self.paths.append(Path(st2, 'exc', sig.value, sig.origin))
                    self.paths[-1].types = sig.types
                else:
                    self.paths.append(Path(st2, 'raise', sig.value))
            elif sig.kind == 'cut':
                self.cut += 1
            else:
                raise AnalysisError('break/continue outside loop at line %d'
                                    % getattr(func_node, 'lineno', 0))
        for p in self.paths:
            for i, e in enumerate(p.events):
                e.idx = i
        STATS['functions_enumerated'] += 1
        STATS['paths'] += len(self.paths)
        STATS['events'] += sum(len(p.events) for p in self.paths)
        STATS['helpers_inlined'] += len(self.inlined)
        STATS['paths_cut_at_loop_bound'] += self.cut

    # ------------------------------------------------------------ helpers
    def fresh(self, name, kind, expr, node, st):
        self.counter += 1
        sid = '%s%s%d' % (name, SYM, self.counter)
        self.symdefs[sid] = {'kind': kind, 'expr': expr, 'node': node,
                             'at': len(st.events), 'name': name}
        return ast.Name(id=sid, ctx=ast.Load())

    def expand(self, node, depth=8, keep=None):
        """Replace value symbols by their defining expressions (symbols
        for which keep(symdef) is true stay opaque)."""
        run = self

        class X(ast.NodeTransformer):
            def visit_Name(self, n):
                d = run.symdefs.get(n.id)
                if d and d['kind'] in ('assign', 'item') and depth > 0 and \
                        d['expr'] is not None and not (keep and keep(d)):
                    return run.expand(d['expr'], depth - 1, keep)
                return n
        return X().visit(copy.deepcopy(node))

    def pretty(self, node):
        """unparse with value-symbol suffixes removed (local names)"""
        import re
        return re.sub(SYM + r'\d+', '', U(node))

    def sym_of(self, node):
        if isinstance(node, ast.Name):
            return self.symdefs.get(node.id)
        return None

    def emit(self, st, kind, node, expr, extra=None, maybe=False):
        e = Event(kind, node, expr, st.loops, st.trys, st.held, extra, maybe)
        st.events.append(e)
        st.steps += 1
        return e

    # ------------------------------------------------------ expressions
    def subst(self, node, st, bound=()):
        """Substitute locals in an expression without emitting events
        (used for targets and for already evaluated sub-expressions)."""
        env = st.env

        class S(ast.NodeTransformer):
            def visit_Name(self, n):
                if n.id in bound:
                    return n
                if isinstance(n.ctx, ast.Load) and n.id in env:
                    return copy.deepcopy(env[n.id])
                return n

            def visit_Lambda(self, n):
                return n
        return S().visit(copy.deepcopy(node))

    def eval(self, node, st, maybe=False):
        """Evaluate `node` in st: emits events in evaluation order, returns
        list of (state, value_ast, signal).  Forks on IfExp and raisers."""
        if node is None:
            return [(st, None, None)]
        m = getattr(self, 'e_' + type(node).__name__, None)
        if m is None:
            return self.e_generic(node, st, maybe)
        return m(node, st, maybe)

    def eval_seq(self, nodes, st, maybe=False):
        """Evaluate a list of expressions left to right.
        -> list of (state, [values], signal)"""
        cur = [(st, [], None)]
        for n in nodes:
            nxt = []
            for s, vals, sig in cur:
                if sig is not None:
                    nxt.append((s, vals, sig))
                    continue
                for s2, v, sig2 in self.eval(n, s, maybe):
                    nxt.append((s2, vals + [v], sig2))
            cur = nxt
        return cur

    def e_generic(self, node, st, maybe):
        # evaluate children expressions in field order, rebuild node
        fields = []
        for name, val in ast.iter_fields(node):
            if isinstance(val, ast.expr):
                fields.append((name, False, [val]))
            elif isinstance(val, list) and val and \
                    all(isinstance(x, ast.expr) for x in val):
                fields.append((name, True, val))
        cur = [(st, {}, None)]
        for name, is_list, vals in fields:
            nxt = []
            for s, acc, sig in cur:
                if sig is not None:
                    nxt.append((s, acc, sig))
                    continue
                for s2, vs, sig2 in self.eval_seq(vals, s, maybe):
                    a2 = dict(acc)
                    a2[name] = vs if is_list else (vs[0] if vs else None)
                    nxt.append((s2, a2, sig2))
            cur = nxt
        out = []
        for s, acc, sig in cur:
            if sig is not None:
                out.append((s, None, sig))
                continue
            new = copy.copy(node)
            for k, v in acc.items():
                setattr(new, k, v)
            out.append((s, new, None))
        return out

    def e_NamedExpr(self, node, st, maybe):
        out = []
        for s, v, sig in self.eval(node.value, st, maybe):
            if sig is not None:
                out.append((s, None, sig))
                continue
            s = s.fork() if s is st else s
            self.bind(node.target, v, s, node)
            out.append((s, copy.deepcopy(s.env.get(node.target.id, v)),
                        None))
        return out

    def e_Dict(self, node, st, maybe):
        cur = [(st, [], None)]
        for k, v in zip(node.keys, node.values):
            nxt = []
            for s, acc, sig in cur:
                if sig is not None:
                    nxt.append((s, acc, sig))
                    continue
                for s2, vs, sig2 in self.eval_seq(
                        ([k] if k is not None else []) + [v], s, maybe):
                    nxt.append((s2, acc + [vs if k is not None
                                           else [None] + vs], sig2))
            cur = nxt
        out = []
        for s, acc, sig in cur:
            if sig is not None:
                out.append((s, None, sig))
            else:
                out.append((s, ast.Dict(keys=[a[0] for a in acc],
                                        values=[a[1] for a in acc]), None))
        return out

    def e_Constant(self, node, st, maybe):
        return [(st, node, None)]

    def e_Name(self, node, st, maybe):
        if node.id in st.env:
            return [(st, copy.deepcopy(st.env[node.id]), None)]
        return [(st, node, None)]

    def e_Lambda(self, node, st, maybe):
        return [(st, node, None)]

    def e_JoinedStr(self, node, st, maybe):
        return [(st, self.subst(node, st), None)]

    def e_Starred(self, node, st, maybe):
        out = []
        for s, v, sig in self.eval(node.value, st, maybe):
            out.append((s, ast.Starred(value=v, ctx=ast.Load())
                        if sig is None else None, sig))
        return out

    def e_BoolOp(self, node, st, maybe):
        # value context: no fork; right operands are conditional
        cur = [(st, [], None)]
        for i, v in enumerate(node.values):
            nxt = []
            for s, vals, sig in cur:
                if sig is not None:
                    nxt.append((s, vals, sig))
                    continue
                for s2, val, sig2 in self.eval(v, s, maybe or i > 0):
                    nxt.append((s2, vals + [val], sig2))
            cur = nxt
        return [(s, ast.BoolOp(op=node.op, values=vals) if sig is None
                 else None, sig) for s, vals, sig in cur]

    def e_IfExp(self, node, st, maybe):
        out = []
        if getattr(self, '_in_comp', 0):
            # inside a comprehension nothing forks: the three parts are
            # evaluated as possible ('maybe') events and the conditional
            # expression is kept as a value
            cur = [(st, [], None)]
            for part in (node.test, node.body, node.orelse):
                nxt = []
                for s, vals, sig in cur:
                    if sig is not None:
                        nxt.append((s, vals, sig))
                        continue
                    for s2, v, sig2 in self.eval(part, s, True):
                        nxt.append((s2, vals + [v], sig2))
                cur = nxt
            return [(s, ast.IfExp(test=v[0], body=v[1], orelse=v[2])
                     if sig is None else None, sig) for s, v, sig in cur]
        for s, truth, sig in self.branch(node.test, st):
            if sig is not None:
                out.append((s, None, sig))
                continue
            out += self.eval(node.body if truth else node.orelse, s, maybe)
        return out

    def _comp(self, node, st, maybe, elts):
        self._in_comp = getattr(self, '_in_comp', 0) + 1
        try:
            return self._comp2(node, st, maybe, elts)
        finally:
            self._in_comp -= 1

    def _comp2(self, node, st, maybe, elts):
        # comprehension: bind targets to fresh symbols, events are 'maybe'
        s = st.fork()
        for g in node.generators:
            res = self.eval(g.iter, s, maybe)
            if len(res) != 1 or res[0][2] is not None:
                raise AnalysisError('fork inside comprehension iterator, '
                                    'line %d' % node.lineno)
            s, itv, _ = res[0]
            g2 = copy.copy(g)
            g2.iter = itv
            for t in ast.walk(g.target):
                if isinstance(t, ast.Name):
                    s.env[t.id] = self.fresh(t.id, 'comp', itv, node, s)
            if g.is_async:
                self.emit(s, 'await', node, itv, extra='async-comp')
            for c in g.ifs:
                r = self.eval(c, s, True)
                if len(r) != 1 or r[0][2] is not None:
                    raise AnalysisError('fork inside comprehension, line %d'
                                        % node.lineno)
                s = r[0][0]
        vals = []
        for e in elts:
            r = self.eval(e, s, True)
            if len(r) != 1 or r[0][2] is not None:
                raise AnalysisError('fork inside comprehension, line %d'
                                    % node.lineno)
            s = r[0][0]
            vals.append(r[0][1])
        # comprehension variables do not leak
        s.env = dict(st.env)
        new = copy.copy(node)
        new.generators = [copy.copy(g) for g in node.generators]
        for g in new.generators:
            g.iter = self.subst(g.iter, st)
        return s, new, vals

    def e_ListComp(self, node, st, maybe):
        s, new, vals = self._comp(node, st, maybe, [node.elt])
        new.elt = vals[0]
        return [(s, new, None)]

    e_SetComp = e_ListComp
    e_GeneratorExp = e_ListComp

    def e_DictComp(self, node, st, maybe):
        s, new, vals = self._comp(node, st, maybe, [node.key, node.value])
        new.key, new.value = vals
        return [(s, new, None)]

    def e_Await(self, node, st, maybe):
        out = []
        for s, v, sig in self.eval(node.value, st, maybe):
            if sig is not None:
                out.append((s, None, sig))
                continue
            if getattr(v, '_inlined', False):
                # `await helper()` of a coroutine that was looked through:
                # its own awaits are already on the path
                out.append((s, v, None))
                continue
            s = s.fork() if s is st else s
            self.emit(s, 'await', node, v, maybe=maybe)
            out.append((s, ast.Await(value=v), None))
        return out

    def e_Yield(self, node, st, maybe):
        out = []
        for s, v, sig in self.eval(node.value, st, maybe):
            if sig is not None:
                out.append((s, None, sig))
                continue
            if self.yield_hooks and not maybe:
                out += self.run_loop_body_at_yield(v, s)
                continue
            s = s.fork() if s is st else s
            self.emit(s, 'yield', node, v, maybe=maybe)
            out.append((s, ast.Yield(value=v), None))
        return out

    def e_YieldFrom(self, node, st, maybe):
        out = []
        for s, v, sig in self.eval(node.value, st, maybe):
            if sig is not None:
                out.append((s, None, sig))
                continue
            s = s.fork() if s is st else s
            self.emit(s, 'yield', node, v, extra='from', maybe=maybe)
            out.append((s, ast.YieldFrom(value=v), None))
        return out

    def spread_displays(self, node, st):
        """f(*t, **d) where t / d are bound (by inlining) to a tuple / dict
        display with constant keys: the explicit argument list"""
        if not any(isinstance(x, ast.Starred) for x in node.args) and \
                not any(k.arg is None for k in node.keywords):
            return node
        args, kws, changed = [], [], False
        for x in node.args:
            if isinstance(x, ast.Starred) and isinstance(x.value, ast.Name):
                v = st.env.get(x.value.id)
                if isinstance(v, (ast.Tuple, ast.List)) and not any(
                        isinstance(e, ast.Starred) for e in v.elts):
                    args += list(v.elts)
                    changed = True
                    continue
            args.append(x)
        for k in node.keywords:
            if k.arg is None and isinstance(k.value, ast.Name):
                v = st.env.get(k.value.id)
                if isinstance(v, ast.Dict) and all(
                        isinstance(q, ast.Constant) and
                        isinstance(q.value, str) for q in v.keys):
                    kws += [ast.keyword(arg=q.value, value=val)
                            for q, val in zip(v.keys, v.values)]
                    changed = True
                    continue
            kws.append(k)
        if not changed:
            return node
        n2 = ast.Call(func=node.func, args=args, keywords=kws)
        ast.copy_location(n2, node)
        ast.fix_missing_locations(n2)
        return n2

    def e_Call(self, node, st, maybe):
        out = []
        node = self.spread_displays(node, st)
        # getattr(obj, '<constant name>')(...) is the method call obj.name(...)
        f = node.func
        if isinstance(f, ast.Call) and isinstance(f.func, ast.Name) and \
                f.func.id == 'getattr' and len(f.args) == 2 and \
                not f.keywords:
            nm = self.subst(f.args[1], st)
            if isinstance(nm, ast.Constant) and isinstance(nm.value, str) \
                    and nm.value.isidentifier():
                node2 = ast.Call(func=ast.Attribute(
                    value=f.args[0], attr=nm.value, ctx=ast.Load()),
                    args=node.args, keywords=node.keywords)
                ast.copy_location(node2, node)
                ast.fix_missing_locations(node2)
                return self.e_Call(node2, st, maybe)
        # callee expression first (receiver), then args, then keywords
        for s, fv, sig in self.eval(node.func, st, maybe):
            if sig is not None:
                out.append((s, None, sig))
                continue
            for s2, avs, sig2 in self.eval_seq(node.args, s, maybe):
                if sig2 is not None:
                    out.append((s2, None, sig2))
                    continue
                for s3, kvs, sig3 in self.eval_seq(
                        [k.value for k in node.keywords], s2, maybe):
                    if sig3 is not None:
                        out.append((s3, None, sig3))
                        continue
                    s3 = s3.fork() if s3 is st else s3
                    call = ast.Call(
                        func=fv, args=avs,
                        keywords=[ast.keyword(arg=k.arg, value=v)
                                  for k, v in zip(node.keywords, kvs)])
                    ast.copy_location(call, node)
                    target = None
                    if self.inline_resolver is not None and not maybe and \
                            self.inline_depth < 3:
                        target = self.inline_resolver(node)
                    if target is not None:
                        inl = self.inline_call(target, call, node, s3)
                        if inl is not None:
                            out += inl
                            continue
                    ev = self.emit(s3, 'call', node, call, maybe=maybe)
                    self.invalidate_on_call(s3, ev)
                    types = self.raiser(ev) if self.raiser else None
                    # a list of sets = one exceptional continuation per set
                    alts = types if isinstance(types, list) else \
                        [types] if types else []
                    for ty in alts:
                        sx = s3.fork()
                        out.append((sx, None, Signal(
                            'raise', None, origin=ev,
                            types=None if ty == '*' else set(ty))))
                    out.append((s3, call, None))
        return out

    def run_loop_body_at_yield(self, value, st):
        """`for target in helper(...): body` with helper a generator that
        was looked through: each `yield value` runs the caller's loop body
        with target bound to the value."""
        loop, caller_env, depth = self.yield_hooks[-1]
        st = st.fork()
        callee_env = st.env
        st.env = dict(caller_env['env'])
        self.bind_loop_value(loop.target, value, st, loop)
        hooks = self.yield_hooks
        self.yield_hooks = hooks[:-1]
        saved_depth = self.inline_depth
        self.inline_depth = depth
        try:
            outs = self.block(loop.body, st)
        finally:
            self.yield_hooks = hooks
            self.inline_depth = saved_depth
        res = []
        for s2, sig in outs:
            # assignments made by the loop body belong to the caller
            caller_env['env'] = dict(s2.env)
            s2.env = dict(callee_env)
            s2._caller_env = dict(caller_env['env'])
            if sig is None or sig.kind == 'continue':
                res.append((s2, const(None), None))
            elif sig.kind == 'break':
                res.append((s2, None, Signal('genbreak')))
            else:
                res.append((s2, None, sig))
        return res

    def bind_loop_value(self, target, value, st, node):
        if isinstance(target, (ast.Tuple, ast.List)) and \
                isinstance(value, (ast.Tuple, ast.List)) and \
                len(target.elts) == len(value.elts):
            for t, v in zip(target.elts, value.elts):
                self.bind_loop_value(t, v, st, node)
        elif isinstance(target, ast.Name):
            st.env[target.id] = value
        else:
            self.bind(target, value, st, node)

    def inline_generator_loop(self, loop, fnode, call, st):
        """execute a `for` over a looked-through generator helper"""
        a = fnode.args
        params = [x.arg for x in a.posonlyargs + a.args]
        env = {}
        if params[:1] in (['self'], ['cls']) and \
                isinstance(call.func, ast.Attribute):
            env[params[0]] = call.func.value
            params = params[1:]
        if a.vararg or a.kwarg or any(isinstance(x, ast.Starred)
                                      for x in call.args) or \
                any(k.arg is None for k in call.keywords) or \
                len(call.args) > len(params):
            return None
        for p_, v in zip(params, call.args):
            env[p_] = v
        for k in call.keywords:
            if k.arg not in params or k.arg in env:
                return None
            env[k.arg] = k.value
        nd = len(a.defaults)
        for p_, d in zip(params[len(params) - nd:], a.defaults):
            env.setdefault(p_, copy.deepcopy(d))
        if any(p_ not in env for p_ in params):
            return None
        if any(isinstance(x, ast.YieldFrom) for x in ast.walk(fnode)):
            return None
        st = st.fork()
        caller_env = {'env': dict(st.env)}
        st.env = env
        self.emit(st, 'inline', loop, call, extra=fnode.name)
        self.inlined.append(fnode.name)
        self.yield_hooks.append((loop, caller_env, self.inline_depth))
        self.inline_depth += 1
        try:
            outs = self.block(body_of(fnode), st)
        finally:
            self.inline_depth -= 1
            self.yield_hooks.pop()
        res = []
        for s2, sig in outs:
            s2.env = dict(getattr(s2, '_caller_env', caller_env['env']))
            if sig is None or sig.kind in ('return', 'genbreak'):
                res.append((s2, None))
            else:
                res.append((s2, sig))
        return res

    def inline_call(self, fnode, call, node, st):
        """Execute the body of a helper introduced after the rules were
        written in the caller's state: its events and conditions become part
        of the caller's path.  -> list of (state, value, signal) or None when
        the call cannot be bound."""
        a = fnode.args
        params = [x.arg for x in a.posonlyargs + a.args]
        if params[:1] in (['self'], ['cls']) and \
                isinstance(call.func, ast.Attribute):
            self_val = call.func.value
            params = params[1:]
            env = {(a.posonlyargs + a.args)[0].arg: self_val}
        else:
            env = {}
        if any(isinstance(x, ast.Starred) for x in call.args) or \
                any(k.arg is None for k in call.keywords):
            return None
        if len(call.args) > len(params) and not a.vararg:
            return None
        for p_, v in zip(params, call.args):
            env[p_] = v
        if a.vararg:
            # surplus positional arguments: a tuple display
            env[a.vararg.arg] = ast.Tuple(
                elts=list(call.args[len(params):]), ctx=ast.Load())
        kwonly = [x.arg for x in a.kwonlyargs]
        extra_kw = []
        for k in call.keywords:
            if k.arg in env:
                return None
            if k.arg not in params + kwonly:
                if not a.kwarg:
                    return None
                extra_kw.append(k)
                continue
            env[k.arg] = k.value
        if a.kwarg:
            # surplus keyword arguments: a dict display with constant keys
            env[a.kwarg.arg] = ast.Dict(
                keys=[ast.Constant(k.arg) for k in extra_kw],
                values=[k.value for k in extra_kw])
        nd = len(a.defaults)
        for p_, d in zip(params[len(params) - nd:], a.defaults):
            env.setdefault(p_, copy.deepcopy(d))
        for p_, d in zip(kwonly, a.kw_defaults):
            if d is not None:
                env.setdefault(p_, copy.deepcopy(d))
        if any(p_ not in env for p_ in params + kwonly):
            return None
        if any(isinstance(x, (ast.Yield, ast.YieldFrom))
               for x in ast.walk(fnode)):
            return None
        caller_env = st.env
        st.env = env
        self.emit(st, 'inline', node, call, extra=fnode.name)
        self.inlined.append(fnode.name)
        self.inline_depth += 1
        try:
            outs = self.block(body_of(fnode), st)
        finally:
            self.inline_depth -= 1
        res = []
        for s2, sig in outs:
            s2.env = dict(caller_env)
            if sig is None:
                v = const(None)
                v._inlined = True
                res.append((s2, v, None))
            elif sig.kind == 'return':
                v = copy.copy(sig.value) if sig.value is not None \
                    else const(None)
                v._inlined = True
                res.append((s2, v, None))
            elif sig.kind in ('raise', 'cut'):
                res.append((s2, None, sig))
            else:
                raise AnalysisError('break/continue escapes inlined helper '
                                    + fnode.name)
        return res

    # ------------------------------------------------------ conditions
    def is_pure_call(self, call):
        f = call.func
        if isinstance(f, ast.Name):
            return f.id in PURE_BUILTINS or f.id in self.pure_calls
        if isinstance(f, ast.Attribute):
            return f.attr in PURE_METHODS or f.attr in self.pure_calls
        return False

    def deps_of(self, atom):
        deps = set()
        volatile = False
        for n in ast.walk(atom):
            if isinstance(n, ast.Attribute):
                p = attr_path(n)
                if p:
                    deps.add(p)
            if isinstance(n, ast.Call) and not self.is_pure_call(n):
                volatile = True
        # keep only maximal paths
        return deps, volatile

    def invalidate_on_store(self, st, path):
        if not path:
            return
        for c in st.conds:
            if c.valid and any(d == path or d.startswith(path + '.') or
                               path.startswith(d + '.') for d in c.deps):
                c.valid = False

    def invalidate_on_call(self, st, ev):
        if self.is_pure_call(ev.expr):
            return
        for c in st.conds:
            if not c.valid:
                continue
            for d in c.deps:
                last = d.split('.')[-1]
                if '.' in d and not self.stable(last):
                    c.valid = False
                    break

    @staticmethod
    def normal_atom(test):
        """-> (atom_ast, polarity) with negations folded into polarity."""
        pol = True
        while True:
            if isinstance(test, ast.UnaryOp) and isinstance(test.op, ast.Not):
                test = test.operand
                pol = not pol
                continue
            if isinstance(test, ast.Compare) and len(test.ops) == 1:
                op = test.ops[0]
                flip = {ast.NotIn: ast.In, ast.IsNot: ast.Is,
                        ast.NotEq: ast.Eq}
                for k, v in flip.items():
                    if isinstance(op, k):
                        test = ast.Compare(left=test.left, ops=[v()],
                                           comparators=test.comparators)
                        pol = not pol
                        break
                # order comparisons: canonical operator is `<`
                #   a > b  ==  b < a ;  a <= b == not (b < a) ;
                #   a >= b == not (a < b)
                a, b = test.left, test.comparators[0]
                if isinstance(op, ast.Gt):
                    test = ast.Compare(left=b, ops=[ast.Lt()],
                                       comparators=[a])
                elif isinstance(op, ast.LtE):
                    test = ast.Compare(left=b, ops=[ast.Lt()],
                                       comparators=[a])
                    pol = not pol
                elif isinstance(op, ast.GtE):
                    test = ast.Compare(left=a, ops=[ast.Lt()],
                                       comparators=[b])
                    pol = not pol
            break
        return test, pol

    def static_truth(self, atom):
        if isinstance(atom, ast.Constant):
            return bool(atom.value)
        if isinstance(atom, (ast.List, ast.Tuple, ast.Dict, ast.Set)):
            n = len(atom.keys) if isinstance(atom, ast.Dict) else len(atom.elts)
            if n == 0:
                return False
            if not any(isinstance(e, ast.Starred)
                       for e in getattr(atom, 'elts', [])):
                return True
        if isinstance(atom, ast.Compare) and len(atom.ops) == 1 and \
                isinstance(atom.ops[0], ast.Is):
            a, b = atom.left, atom.comparators[0]
            if isinstance(a, ast.Constant) and isinstance(b, ast.Constant):
                return a.value is b.value
            lit = (ast.List, ast.Tuple, ast.Dict, ast.Set, ast.JoinedStr)
            if isinstance(b, ast.Constant) and b.value is None and \
                    isinstance(a, lit):
                return False
        return None

    def decide(self, atom, st):
        """Truth of a positive atom on this path, or None."""
        t = self.static_truth(atom)
        if t is not None:
            return t
        txt = U(atom)
        for c in reversed(st.conds):
            if c.valid and not c.volatile and c.text == txt:
                return c.pol
        if self.oracle:
            t = self.oracle(atom, self, st)
            if t is not None:
                return t
        return None

    def branch(self, test, st):
        """Evaluate a test -> list of (state, truth, signal)."""
        if isinstance(test, ast.UnaryOp) and isinstance(test.op, ast.Not):
            return [(s, (not t) if sig is None else None, sig)
                    for s, t, sig in self.branch(test.operand, st)]
        if isinstance(test, ast.BoolOp):
            is_and = isinstance(test.op, ast.And)
            cur = [(st, None)]      # states still undecided
            done = []
            for v in test.values:
                nxt = []
                for s, _ in cur:
                    for s2, t, sig in self.branch(v, s):
                        if sig is not None:
                            done.append((s2, None, sig))
                        elif t == (not is_and):
                            done.append((s2, t, None))   # short circuit
                        else:
                            nxt.append((s2, t))
                cur = nxt
            return done + [(s, is_and, None) for s, _ in cur]
        out = []
        for s, v, sig in self.eval(test, st):
            if sig is not None:
                out.append((s, None, sig))
                continue
            v = fold_tuple(v)
            if isinstance(v, ast.Name):
                # a local that captured a pure boolean expression
                # (`catch_all = event not in self.reserved_events`) and is
                # tested before anything could change what it talks about:
                # the test is the expression
                d = self.symdefs.get(v.id)
                if d and d['kind'] == 'assign' and isinstance(
                        d['expr'], (ast.Compare, ast.BoolOp, ast.UnaryOp)) \
                        and not any(isinstance(n, (ast.Call, ast.Await,
                                                   ast.NamedExpr))
                                    for n in ast.walk(d['expr'])) and \
                        not any(e.kind in ('store', 'del', 'call', 'await')
                                for e in s.events[d['at']:]):
                    out += self.branch_evaluated(d['expr'], s, test)
                    continue
            if isinstance(v, ast.BoolOp) or (
                    isinstance(v, ast.UnaryOp) and
                    isinstance(v.op, ast.Not) and
                    isinstance(v.operand, ast.BoolOp)):
                # a boolean expression handed back by an inlined helper (or
                # substituted for a local): split it like a test, without
                # evaluating anything again
                out += self.branch_evaluated(v, s, test)
                continue
            atom, pol = self.normal_atom(v)
            t = self.decide(atom, s)
            deps, vol = self.deps_of(atom)
            if t is not None:
                s2 = s.fork()
                s2.conds.append(Cond(atom, t, len(s2.events), deps, vol,
                                     test))
                out.append((s2, t if pol else (not t), None))
            else:
                for t in (True, False):
                    s2 = s.fork()
                    s2.conds.append(Cond(atom, t, len(s2.events), deps, vol,
                                         test))
                    out.append((s2, t if pol else (not t), None))
        return out

    def branch_evaluated(self, v, st, node):
        """split an already evaluated boolean value into atoms"""
        if isinstance(v, ast.UnaryOp) and isinstance(v.op, ast.Not):
            return [(s, not t, sig)
                    for s, t, sig in self.branch_evaluated(v.operand, st,
                                                           node)]
        if isinstance(v, ast.BoolOp):
            is_and = isinstance(v.op, ast.And)
            cur = [st]
            done = []
            for x in v.values:
                nxt = []
                for s in cur:
                    for s2, t, sig in self.branch_evaluated(x, s, node):
                        if t == (not is_and):
                            done.append((s2, t, None))
                        else:
                            nxt.append(s2)
                cur = nxt
            return done + [(s, is_and, None) for s in cur]
        atom, pol = self.normal_atom(v)
        t = self.decide(atom, st)
        deps, vol = self.deps_of(atom)
        out = []
        for tv in ((t,) if t is not None else (True, False)):
            s2 = st.fork()
            s2.conds.append(Cond(atom, tv, len(s2.events), deps, vol, node))
            out.append((s2, tv if pol else (not tv), None))
        return out

    # ------------------------------------------------------ statements
    def block(self, stmts, st):
        cur = [st]
        outs = []
        for s in stmts:
            nxt = []
            for x in cur:
                for r in self.stmt(s, x):
                    if r[1] is None:
                        nxt.append(r[0])
                    else:
                        outs.append(r)
            cur = nxt
            if len(cur) + len(outs) > self.max_paths:
                raise AnalysisError('path explosion at line %d' % s.lineno)
            if not cur:
                break
        return outs + [(x, None) for x in cur]

    LOOKUP_ERRORS = ('KeyError', 'IndexError', 'LookupError')

    def declared_lookup_error(self, s, st):
        """A simple statement with a subscript load / delete that sits in
        the body of a `try` which names KeyError (IndexError) in a handler:
        the programmer declared that the lookup may fail, so the failing
        continuation is a path."""
        if not self.declared_raises or not st.trys:
            return None
        if not isinstance(s, (ast.Assign, ast.Expr, ast.Delete, ast.Return,
                              ast.AugAssign)):
            return None
        has_sub = any(isinstance(n, ast.Subscript) and
                      not isinstance(n.ctx, ast.Store)
                      for n in ast.walk(s))
        if not has_sub:
            return None
        names = set()
        for t, part in st.trys:
            if part != 'body':
                continue
            for h in t.handlers:
                if h.type is None:
                    continue
                for x in (h.type.elts if isinstance(h.type, ast.Tuple)
                          else [h.type]):
                    nm = x.attr if isinstance(x, ast.Attribute) else \
                        x.id if isinstance(x, ast.Name) else None
                    if nm in self.LOOKUP_ERRORS:
                        names.add(nm)
        return names or None

    def desugar_listcomp(self, s):
        """`x = [elt for t in it if c ...]` (one generator, plain name
        target) -> x = []; for t in it: if c: x.append(elt)"""
        if not (isinstance(s, ast.Assign) and len(s.targets) == 1 and
                isinstance(s.targets[0], ast.Name) and
                isinstance(s.value, ast.ListComp) and
                len(s.value.generators) == 1 and
                not s.value.generators[0].is_async):
            return None
        g = s.value.generators[0]
        x = s.targets[0].id
        body = [ast.Expr(value=ast.Call(
            func=ast.Attribute(value=ast.Name(id=x, ctx=ast.Load()),
                               attr='append', ctx=ast.Load()),
            args=[s.value.elt], keywords=[]))]
        for c in reversed(g.ifs):
            body = [ast.If(test=c, body=body, orelse=[])]
        out = [ast.Assign(targets=[ast.Name(id=x, ctx=ast.Store())],
                          value=ast.List(elts=[], ctx=ast.Load())),
               ast.For(target=g.target, iter=g.iter, body=body, orelse=[])]
        for o in out:
            ast.copy_location(o, s)
            ast.fix_missing_locations(o)
        return out

    def stmt(self, s, st):
        ds = self.desugar_listcomp(s)
        if ds is not None:
            return self.block(ds, st)
        m = getattr(self, 's_' + type(s).__name__, None)
        if m is None:
            raise AnalysisError('unsupported statement %s at line %d'
                                % (type(s).__name__, s.lineno))
        out = []
        names = self.declared_lookup_error(s, st)
        if names:
            sx = st.fork()
            ev = self.emit(sx, 'lookup-fails', s, None)
            out.append((sx, Signal('raise', None, origin=ev,
                                   types=set(names))))
        if self.stmt_raiser is not None and isinstance(
                s, (ast.Assign, ast.Expr, ast.Return, ast.AugAssign,
                    ast.AnnAssign, ast.If, ast.While)):
            probe = s
            if isinstance(s, (ast.If, ast.While)):
                # only the test belongs to this statement
                probe = ast.copy_location(ast.Expr(value=s.test), s)
            types = self.stmt_raiser(probe)
            if types:
                sx = st.fork()
                ev = self.emit(sx, 'stmt-fails', s, None)
                out.append((sx, Signal(
                    'raise', None, origin=ev,
                    types=None if types == '*' else set(types))))
        return out + m(s, st)

    def s_Pass(self, s, st):
        return [(st, None)]

    s_Global = s_Nonlocal = s_Pass

    def s_Import(self, s, st):
        st = st.fork()
        for a in s.names:
            nm = a.asname or a.name.split('.')[0]
            st.env.pop(nm, None)
        return [(st, None)]

    s_ImportFrom = s_Import

    def s_FunctionDef(self, s, st):
        st = st.fork()
        self.emit(st, 'def', s, ast.Name(id=s.name, ctx=ast.Load()))
        st.env[s.name] = ast.Name(id=s.name, ctx=ast.Load())
        for d in s.decorator_list:
            for s2, v, sig in self.eval(d, st):
                st = s2
        return [(st, None)]

    s_AsyncFunctionDef = s_FunctionDef

    def s_ClassDef(self, s, st):
        st = st.fork()
        self.emit(st, 'def', s, ast.Name(id=s.name, ctx=ast.Load()))
        st.env[s.name] = ast.Name(id=s.name, ctx=ast.Load())
        return [(st, None)]

    def s_Expr(self, s, st):
        return [(s2, sig) for s2, v, sig in self.eval(s.value, st)]

    def simple_value(self, v):
        """May this value be propagated textually?  Only names, constants
        and operators over them: anything that reads state (attribute,
        subscript) or runs code is captured once in a value symbol."""
        # an alias of an attribute of self that is bound in constructors
        # only (`tbl = self._table`) names the same object for the whole
        # function: propagate it textually
        if isinstance(v, ast.Attribute) and isinstance(v.value, ast.Name) \
                and v.value.id == 'self' and self.stable(v.attr):
            return True
        for n in ast.walk(v):
            if isinstance(n, (ast.Call, ast.Await, ast.Yield, ast.YieldFrom,
                              ast.Attribute, ast.Subscript, ast.List,
                              ast.Dict, ast.Set,
                              ast.ListComp, ast.DictComp, ast.SetComp,
                              ast.GeneratorExp)):
                return False
        return True

    def bind(self, target, value, st, node):
        """Assign value (substituted ast) to target in st (already forked)."""
        if isinstance(target, ast.Name):
            if self.simple_value(value):
                st.env[target.id] = value
            else:
                st.env[target.id] = self.fresh(target.id, 'assign', value,
                                               node, st)
        elif isinstance(target, (ast.Tuple, ast.List)) and \
                _plain_tuple(value) and sum(
                    isinstance(e, ast.Starred) for e in target.elts) == 1 \
                and len(value.elts) >= len(target.elts) - 1:
            # a, *rest = (x, y, z): the remainder is kept as a display of
            # its elements (an immutable stand-in for the fresh list)
            k = [i for i, e in enumerate(target.elts)
                 if isinstance(e, ast.Starred)][0]
            after = len(target.elts) - k - 1
            ve = list(value.elts)
            for t, v in zip(target.elts[:k], ve[:k]):
                self.bind(t, v, st, node)
            mid = ve[k:len(ve) - after]
            self.bind(target.elts[k].value,
                      ast.Tuple(elts=mid, ctx=ast.Load()), st, node)
            for t, v in zip(target.elts[k + 1:], ve[len(ve) - after:]):
                self.bind(t, v, st, node)
        elif isinstance(target, (ast.Tuple, ast.List)):
            if isinstance(value, (ast.Tuple, ast.List)) and \
                    len(value.elts) == len(target.elts) and \
                    not any(isinstance(e, ast.Starred)
                            for e in list(value.elts) + list(target.elts)):
                for t, v in zip(target.elts, value.elts):
                    self.bind(t, v, st, node)
            else:
                if not self.simple_value(value):
                    value = self.fresh('tmp', 'assign', value, node, st)
                for i, t in enumerate(target.elts):
                    if isinstance(t, ast.Starred):
                        item = ast.Subscript(
                            value=copy.deepcopy(value),
                            slice=ast.Slice(lower=const(i), upper=None,
                                            step=None), ctx=ast.Load())
                        t = t.value
                    else:
                        item = ast.Subscript(value=copy.deepcopy(value),
                                             slice=const(i), ctx=ast.Load())
                    self.bind(t, item, st, node)
        elif isinstance(target, (ast.Attribute, ast.Subscript)):
            tv = self.subst(target, st)
            self.emit(st, 'store', node, tv, extra=value)
            self.invalidate_on_store(st, base_path(tv))
        else:
            raise AnalysisError('unsupported assignment target at line %d'
                                % node.lineno)

    def s_Assign(self, s, st):
        out = []
        for s2, v, sig in self.eval(s.value, st):
            if sig is not None:
                out.append((s2, sig))
                continue
            v = fold_tuple(v)
            s2 = s2.fork() if s2 is st else s2
            for t in s.targets:
                self.bind(t, v, s2, s)
            out.append((s2, None))
        return out

    def s_AnnAssign(self, s, st):
        if s.value is None:
            return [(st, None)]
        out = []
        for s2, v, sig in self.eval(s.value, st):
            if sig is not None:
                out.append((s2, sig))
                continue
            s2 = s2.fork() if s2 is st else s2
            self.bind(s.target, v, s2, s)
            out.append((s2, None))
        return out

    def s_AugAssign(self, s, st):
        out = []
        for s2, v, sig in self.eval(s.value, st):
            if sig is not None:
                out.append((s2, sig))
                continue
            s2 = s2.fork() if s2 is st else s2
            if isinstance(s.target, ast.Name):
                old = s2.env.get(s.target.id, s.target)
                new = ast.BinOp(left=copy.deepcopy(old), op=s.op, right=v)
                self.bind(s.target, new, s2, s)
            else:
                tv = self.subst(s.target, s2)
                self.emit(s2, 'store', s, tv,
                          extra=ast.BinOp(left=tv, op=s.op, right=v))
                self.invalidate_on_store(s2, base_path(tv))
            out.append((s2, None))
        return out

    def s_Delete(self, s, st):
        st = st.fork()
        for t in s.targets:
            if isinstance(t, ast.Name):
                st.env.pop(t.id, None)
                continue
            tv = self.subst(t, st)
            self.emit(st, 'del', s, tv)
            self.invalidate_on_store(st, base_path(tv))
        return [(st, None)]

    def s_Return(self, s, st):
        out = []
        for s2, v, sig in self.eval(s.value, st):
            if sig is not None:
                out.append((s2, sig))
            else:
                out.append((s2, Signal('return', v)))
        return out

    def s_Raise(self, s, st):
        if s.exc is None:
            exc = st.exc
            if isinstance(exc, Signal):
                return [(st, Signal('raise', exc.value, origin=exc.origin,
                                    types=exc.types))]
            return [(st, Signal('raise', None, types=None))]
        out = []
        for s2, v, sig in self.eval(s.exc, st):
            if sig is not None:
                out.append((s2, sig))
                continue
            name = None
            f = v.func if isinstance(v, ast.Call) else v
            if isinstance(f, ast.Attribute):
                name = f.attr
            elif isinstance(f, ast.Name):
                name = f.id
            out.append((s2, Signal('raise', v,
                                   types={name} if name else None)))
        return out

    def s_Assert(self, s, st):
        out = []
        for s2, truth, sig in self.branch(s.test, st):
            if sig is not None:
                out.append((s2, sig))
            elif truth:
                out.append((s2, None))
            else:
                out.append((s2, Signal('raise', ast.Call(
                    func=ast.Name(id='AssertionError', ctx=ast.Load()),
                    args=[], keywords=[]), types={'AssertionError'})))
        return out

    def s_Break(self, s, st):
        return [(st, Signal('break'))]

    def s_Continue(self, s, st):
        return [(st, Signal('continue'))]

    def s_If(self, s, st):
        out = []
        for s2, truth, sig in self.branch(s.test, st):
            if sig is not None:
                out.append((s2, sig))
                continue
            out += self.block(s.body if truth else s.orelse, s2)
        return out

    def s_Match(self, s, st):
        """`match` over value / singleton / or / capture / wildcard patterns
        (with guards) is an if/elif chain on the subject; sequence, mapping
        and class patterns are outside the enumerator."""
        subj = s.subject
        pre = []
        if not isinstance(subj, (ast.Name, ast.Constant)) and not (
                isinstance(subj, ast.Attribute) and
                self.simple_value(subj.value)):
            self.counter += 1
            nm = '_match%d' % self.counter
            pre = [ast.copy_location(ast.Assign(
                targets=[ast.Name(id=nm, ctx=ast.Store())], value=subj),
                s)]
            subj = ast.Name(id=nm, ctx=ast.Load())

        def cond(pat):
            """-> (test ast or True, [bindings])"""
            if isinstance(pat, ast.MatchValue):
                return ast.Compare(left=subj, ops=[ast.Eq()],
                                   comparators=[pat.value]), []
            if isinstance(pat, ast.MatchSingleton):
                return ast.Compare(left=subj, ops=[ast.Is()],
                                   comparators=[ast.Constant(pat.value)]), []
            if isinstance(pat, ast.MatchClass) and not pat.patterns and \
                    not pat.kwd_patterns:
                return ast.Call(func=ast.Name(id='isinstance',
                                              ctx=ast.Load()),
                                args=[subj, pat.cls], keywords=[]), []
            if isinstance(pat, ast.MatchOr):
                parts = [cond(q) for q in pat.patterns]
                if any(b for _, b in parts):
                    raise AnalysisError('match: capture inside an or-'
                                        'pattern at line %d' % s.lineno)
                if any(t is True for t, _ in parts):
                    return True, []
                return ast.BoolOp(op=ast.Or(),
                                  values=[t for t, _ in parts]), []
            if isinstance(pat, ast.MatchAs):
                if pat.pattern is None:
                    return True, ([pat.name] if pat.name else [])
                t, b = cond(pat.pattern)
                return t, b + ([pat.name] if pat.name else [])
            raise AnalysisError('unsupported match pattern %s at line %d'
                                % (type(pat).__name__, s.lineno))
        chain = None
        tail = None
        for c in s.cases:
            t, binds = cond(c.pattern)
            body = [ast.copy_location(ast.Assign(
                targets=[ast.Name(id=b, ctx=ast.Store())], value=subj), s)
                for b in binds] + list(c.body)
            if c.guard is not None:
                if binds:
                    raise AnalysisError('match: guard on a capturing case '
                                        'at line %d' % s.lineno)
                t = c.guard if t is True else ast.BoolOp(
                    op=ast.And(), values=[t, c.guard])
            if t is True:
                node = body
                if tail is None:
                    chain = node
                else:
                    tail.orelse = node
                tail = None
                break
            node = ast.copy_location(ast.If(test=t, body=body, orelse=[]),
                                     c.pattern)
            ast.fix_missing_locations(node)
            if chain is None:
                chain = [node]
            else:
                tail.orelse = [node]
            tail = node
        stmts = pre + (chain or [])
        for x in stmts:
            ast.fix_missing_locations(x)
        return self.block(stmts, st)

    def _loop_bound(self, s):
        return self.loop_iters.get(s.lineno, self.max_iter)

    def s_While(self, s, st):
        out = []
        cur = [st]
        bound = self._loop_bound(s)
        for it in range(bound + 1):
            nxt = []
            for x in cur:
                for s2, truth, sig in self.branch(s.test, x):
                    if sig is not None:
                        out.append((s2, sig))
                        continue
                    if not truth:
                        out += self.block(s.orelse, s2)
                        continue
                    if it == bound:
                        out.append((s2, Signal('cut')))
                        continue
                    s2 = s2.fork()
                    saved = s2.loops
                    s2.loops = saved + ((s, it),)
                    for s3, sig3 in self.block(s.body, s2):
                        s3.loops = saved
                        if sig3 is None or sig3.kind == 'continue':
                            nxt.append(s3)
                        elif sig3.kind == 'break':
                            out.append((s3, None))
                        else:
                            out.append((s3, sig3))
            cur = nxt
            if not cur:
                break
        return out

    def s_For(self, s, st):
        out = []
        is_async = isinstance(s, ast.AsyncFor)
        bound = self._loop_bound(s)
        gen = None
        if self.inline_resolver is not None and \
                isinstance(s.iter, ast.Call) and self.inline_depth < 3 and \
                not s.orelse:
            g = self.inline_resolver(s.iter)
            if g is not None and any(isinstance(x, ast.Yield)
                                     for x in ast.walk(g)):
                gen = g
        if gen is not None:
            done = []
            ok = True
            for s0, fv, sig in self.eval(s.iter.func, st):
                for s1, avs, sig1 in self.eval_seq(s.iter.args, s0):
                    for s2, kvs, sig2 in self.eval_seq(
                            [k.value for k in s.iter.keywords], s1):
                        if sig or sig1 or sig2:
                            ok = False
                            continue
                        call = ast.Call(func=fv, args=avs, keywords=[
                            ast.keyword(arg=k.arg, value=v)
                            for k, v in zip(s.iter.keywords, kvs)])
                        ast.copy_location(call, s.iter)
                        r = self.inline_generator_loop(s, gen, call, s2)
                        if r is None:
                            ok = False
                        else:
                            done += r
            if ok:
                return done
        for s0, itv, sig in self.eval(s.iter, st):
            if sig is not None:
                out.append((s0, sig))
                continue
            s0 = s0.fork()
            self.emit(s0, 'iter', s, itv)
            cur = [s0]
            for it in range(bound + 1):
                nxt = []
                for x in cur:
                    # iterator exhausted here
                    xe = x.fork()
                    if is_async:
                        self.emit(xe, 'await', s, itv, extra='async-for')
                    out += self.block(s.orelse, xe)
                    if it == bound:
                        continue
                    s2 = x.fork()
                    if is_async:
                        self.emit(s2, 'await', s, itv, extra='async-for')
                    item = self.fresh('item', 'loopvar', itv, s, s2)
                    self.symdefs[item.id]['iteration'] = it
                    self.bind_loop_target(s.target, item, s2, s)
                    saved = s2.loops
                    s2.loops = saved + ((s, it),)
                    for s3, sig3 in self.block(s.body, s2):
                        s3.loops = saved
                        if sig3 is None or sig3.kind == 'continue':
                            nxt.append(s3)
                        elif sig3.kind == 'break':
                            out.append((s3, None))
                        else:
                            out.append((s3, sig3))
                cur = nxt
                if not cur:
                    break
        return out

    s_AsyncFor = s_For

    def bind_loop_target(self, target, item, st, node):
        if isinstance(target, ast.Name):
            d = self.symdefs[item.id]
            sym = self.fresh(target.id, 'loopvar', d['expr'], node, st)
            self.symdefs[sym.id]['iteration'] = d.get('iteration')
            self.symdefs[sym.id]['index'] = d.get('index')
            st.env[target.id] = sym
        elif isinstance(target, (ast.Tuple, ast.List)):
            for i, t in enumerate(target.elts):
                d = self.symdefs[item.id]
                sub = self.fresh('item', 'loopvar', d['expr'], node, st)
                self.symdefs[sub.id]['iteration'] = d.get('iteration')
                self.symdefs[sub.id]['index'] = i
                self.bind_loop_target(t, sub, st, node)
        else:
            tv = self.subst(target, st)
            self.emit(st, 'store', node, tv, extra=item)

    def handler_matches(self, h, sig):
        """-> 'yes' | 'no' | 'maybe' : does `except h.type` catch sig?"""
        if h.type is None:
            return 'yes'
        names = []
        for t in (h.type.elts if isinstance(h.type, ast.Tuple) else [h.type]):
            names.append(t.attr if isinstance(t, ast.Attribute) else
                         t.id if isinstance(t, ast.Name) else U(t))
        if sig.types is None:
            # unknown exception type: an ordinary Exception subclass
            if any(n in CATCH_ALL for n in names):
                return 'yes'
            return 'maybe'
        verdicts = []
        for ty in sig.types:
            if ty in names:
                verdicts.append('yes')
            elif ty in NOT_EXCEPTION:
                verdicts.append('yes' if 'BaseException' in names else 'no')
            elif any(n in CATCH_ALL for n in names):
                verdicts.append('yes')
            elif ty == 'Exception':
                verdicts.append('maybe')
            else:
                # named type vs. a different named handler: subclassing
                # inside the package is by explicit table
                verdicts.append('yes' if self.is_subclass(ty, names)
                                else 'no')
        if all(v == 'yes' for v in verdicts):
            return 'yes'
        if all(v == 'no' for v in verdicts):
            return 'no'
        return 'maybe'

    SUBCLASS = {
        'ConnectionRefusedError': {'ConnectionError', 'SocketIOError'},
        'ConnectionError': {'SocketIOError'},
        'TimeoutError': {'SocketIOError'},
        'BadNamespaceError': {'SocketIOError'},
        'DisconnectedError': {'SocketIOError'},
    }

    def is_subclass(self, ty, names):
        return bool(self.SUBCLASS.get(ty, set()) & set(names))

    def s_Try(self, s, st):
        out = []
        st = st.fork()
        saved = st.trys
        st.trys = saved + ((s, 'body'),)
        body_outs = self.block(s.body, st)
        after = []      # (state, signal) before finally
        for s2, sig in body_outs:
            s2.trys = saved
            if sig is None:
                if s.orelse:
                    s2.trys = saved + ((s, 'else'),)
                    for s3, sig3 in self.block(s.orelse, s2):
                        s3.trys = saved
                        after.append((s3, sig3))
                else:
                    after.append((s2, None))
            elif sig.kind == 'raise':
                remaining = [(s2, sig)]
                for h in s.handlers:
                    nxt = []
                    for s3, sg in remaining:
                        m = self.handler_matches(h, sg)
                        if m in ('yes', 'maybe'):
                            sh = s3.fork()
                            sh.trys = saved + ((s, 'handler'),)
                            old_exc = sh.exc
                            sh.exc = sg
                            self.emit(sh, 'caught', h, h.type, extra=sg)
                            if h.name:
                                sh.env[h.name] = self.fresh(
                                    h.name, 'exc', sg.value, h, sh)
                            for s4, sig4 in self.block(h.body, sh):
                                s4.trys = saved
                                s4.exc = old_exc
                                after.append((s4, sig4))
                        if m in ('no', 'maybe'):
                            nxt.append((s3, sg))
                    remaining = nxt
                after += remaining
            else:
                after.append((s2, sig))
        if not s.finalbody:
            return after
        for s2, sig in after:
            s2 = s2.fork()
            s2.trys = saved + ((s, 'final'),)
            for s3, sig3 in self.block(s.finalbody, s2):
                s3.trys = saved
                out.append((s3, sig3 if sig3 is not None else sig))
        return out

    s_TryStar = s_Try

    def s_With(self, s, st):
        out = []
        is_async = isinstance(s, ast.AsyncWith)
        sup = suppress_types(s)
        if sup is not None:
            # `with contextlib.suppress(E): body` == try: body / except E: pass
            t = ast.Try(body=list(s.body), handlers=[ast.ExceptHandler(
                type=sup, name=None, body=[ast.Pass()])], orelse=[],
                finalbody=[])
            ast.copy_location(t, s)
            ast.fix_missing_locations(t)
            return self.s_Try(t, st)
        cur = [(st, [], None)]
        for item in s.items:
            nxt = []
            for x, ctxs, sig in cur:
                if sig is not None:
                    nxt.append((x, ctxs, sig))
                    continue
                for s2, v, sig2 in self.eval(item.context_expr, x):
                    if sig2 is not None:
                        nxt.append((s2, ctxs, sig2))
                        continue
                    s2 = s2.fork()
                    self.emit(s2, 'with', s, v)
                    if is_async:
                        self.emit(s2, 'await', s, v, extra='async-with')
                    if item.optional_vars is not None:
                        self.bind(item.optional_vars,
                                  self.fresh('ctx', 'with', v, s, s2), s2, s)
                    nxt.append((s2, ctxs + [U(v)], None))
            cur = nxt
        for x, ctxs, sig in cur:
            if sig is not None:
                out.append((x, sig))
                continue
            saved = x.held
            x.held = saved + tuple(ctxs)
            for s3, sig3 in self.block(s.body, x):
                s3.held = saved
                if is_async:
                    self.emit(s3, 'await', s, None, extra='async-with-exit')
                out.append((s3, sig3))
        return out

    s_AsyncWith = s_With


def suppress_types(s):
    """the exception type expression of `with [contextlib.]suppress(E...)`
    (single item, not async), else None"""
    if isinstance(s, ast.With) and len(s.items) == 1 and \
            s.items[0].optional_vars is None:
        c = s.items[0].context_expr
        if isinstance(c, ast.Call) and U(c.func) in (
                'contextlib.suppress', 'suppress') and c.args and \
                not c.keywords:
            return c.args[0] if len(c.args) == 1 else ast.Tuple(
                elts=list(c.args), ctx=ast.Load())
    return None


def new_helper_resolver(finfo, model):
    """Resolver for Run(inline_resolver=...): a call that resolves (CHA)
    to exactly one in-package function whose name is not in the frozen table
    of names known when the rules were written is a helper introduced later
    and is looked through."""
    from .known_names import KNOWN_NAMES

    def resolve(call_node):
        f = call_node.func
        name = f.attr if isinstance(f, ast.Attribute) else \
            f.id if isinstance(f, ast.Name) else None
        if name is None or name in KNOWN_NAMES:
            return None
        if isinstance(f, ast.Attribute) and \
                not U(f.value) in ('self', 'cls', 'server', 'self.server',
                                   'self.manager', 'self.sio',
                                   'self.client'):
            return None
        kind, tg = model.resolve_call(finfo, call_node)
        if kind != 'internal' or len({id(t.node) for t in tg}) != 1:
            return None
        t = tg[0]
        if t.node is finfo.node or len(list(ast.walk(t.node))) > 600:
            return None
        return t.node
    return resolve


def with_new_helpers(model, finfo, depth=3):
    """[function nodes]: finfo's own node plus the helpers introduced after
    the rules were written that it calls (transitively) - for rules that
    scan the syntax of a function rather than enumerate its paths."""
    from .known_names import KNOWN_NAMES
    out = [finfo]
    work = [(finfo, 0)]
    while work:
        f, d = work.pop()
        if d >= depth:
            continue
        for n in ast.walk(f.node):
            if not isinstance(n, ast.Call):
                continue
            fn = n.func
            name = fn.attr if isinstance(fn, ast.Attribute) else \
                fn.id if isinstance(fn, ast.Name) else None
            if name is None or name in KNOWN_NAMES:
                continue
            kind, tg = model.resolve_call(f, n)
            if kind == 'internal':
                for t in tg:
                    if t not in out:
                        out.append(t)
                        work.append((t, d + 1))
    return out


def run_function(finfo, model=None, **kw):
    if model is not None and 'stable' not in kw:
        kw['stable'] = model.is_stable_attr
    if model is not None and 'inline_resolver' not in kw:
        kw['inline_resolver'] = new_helper_resolver(finfo, model)
    return Run(finfo.node, **kw)
