"""Obligations, violations, known findings, evidence and exit codes."""
import json
import os
import re
import time

from .model import Model, AnalysisError

VERIF = os.path.dirname(os.path.dirname(os.path.abspath(__file__)))


def norm_ws(s):
    return re.sub(r'\s+', ' ', str(s)).strip()


class Ctx:
    """Per-run context handed to the rule functions of one property."""

    def __init__(self, prop, tier='quick', repo='/repo', seed=0,
                 evidence_dir=None, quiet=False):
        self.prop = prop
        self.tier = tier
        self.repo = repo
        self.seed = seed
        self.quiet = quiet
        self.t0 = time.time()
        self.model = Model(repo)
        self.obligations = []      # dicts
        self.violations = []
        self.infos = []
        self.rules = {}            # rid -> {desc, instances, floor}
        self.assumptions = []
        self.extra = {}
        self.evidence_dir = evidence_dir or os.path.join(VERIF, 'evidence')
        self._cur = None

    # ------------------------------------------------------------ rules
    def rule(self, rid, desc, floor=1):
        self._cur = rid
        self.rules[rid] = {'desc': norm_ws(desc), 'instances': 0,
                           'floor': floor, 'violations': 0}
        return rid

    def ok(self, construct, what, where=None, rid=None):
        rid = rid or self._cur
        self.rules[rid]['instances'] += 1
        self.obligations.append({'rule': rid, 'construct': construct,
                                 'what': norm_ws(what), 'where': where,
                                 'ok': True})

    def bad(self, construct, key, reason, where=None, witness=None, rid=None):
        """Record a violated obligation.  `key` identifies the finding
        without line numbers (used for known-finding matching)."""
        rid = rid or self._cur
        self.rules[rid]['instances'] += 1
        self.rules[rid]['violations'] += 1
        v = {'rule': rid, 'construct': construct, 'key': norm_ws(key),
             'reason': norm_ws(reason), 'where': where,
             'witness': witness}
        self.obligations.append({'rule': rid, 'construct': construct,
                                 'what': norm_ws(reason), 'where': where,
                                 'ok': False})
        self.violations.append(v)

    def check(self, cond, construct, what, key=None, reason=None, where=None,
              witness=None, rid=None):
        if cond:
            self.ok(construct, what, where, rid)
        else:
            self.bad(construct, key or what, reason or ('NOT: ' + what),
                     where, witness, rid)
        return bool(cond)

    def info(self, text):
        self.infos.append(norm_ws(text))

    def assume(self, text):
        t = norm_ws(text)
        if t not in self.assumptions:
            self.assumptions.append(t)

    # ------------------------------------------------------------ finish
    def new_violations(self):
        known = load_known()
        return [v for v in self.violations
                if match_known(known, self.prop, v) is None]

    def finish(self, self_test=None):
        if not self.violations:
            # a floor shortfall next to a reported violation is explained by
            # the violation (the construct is gone); alone it means the rule
            # no longer binds to the code and would pass vacuously
            for rid, r in self.rules.items():
                if r['instances'] < r['floor']:
                    raise AnalysisError(
                        'rule %s matched %d instances, floor is %d (the '
                        'rule would pass vacuously)' % (
                            rid, r['instances'], r['floor']))
        known = load_known()
        new = []
        known_hits = []
        for v in self.violations:
            k = match_known(known, self.prop, v)
            if k is not None:
                known_hits.append((k, v))
            else:
                new.append(v)
        wall = time.time() - self.t0
        distinct = set()
        for o in self.obligations:
            distinct.add((o['rule'], o['construct'], o['what']))
        n_ob = len(self.obligations)
        n_ok = sum(1 for o in self.obligations if o['ok'])
        samples = []
        seen_rules = set()
        for o in self.obligations:
            if o['rule'] not in seen_rules:
                seen_rules.add(o['rule'])
                samples.append({k: o[k] for k in
                                ('rule', 'construct', 'what', 'where', 'ok')})
        ev = {
            'property_id': self.prop,
            'tier': self.tier,
            'seed': int(self.seed),
            'level': 'other',
            'coverage': {
                'explanation': (
                    'Static analysis of /repo/src/socketio (parsed afresh on '
                    'this run, nothing executed). Each rule below was '
                    'instantiated on the constructs it binds to; an '
                    'obligation is one (rule, construct, statement) triple '
                    'that was examined and either discharged or reported.'),
                'evaluations': n_ob,
                'distinct_nontrivial': len(distinct),
                'rule': ('obligations are generated by the repository-'
                         'specific rules listed under "rules"; one counts as '
                         'distinct when its (rule id, qualified construct, '
                         'normalised statement) triple is new; all matched '
                         'real code of the analysed tree'),
                'obligations': n_ob,
                'discharged': n_ok,
                'exhaustive': True,
                'rules': self.rules,
                'samples': samples[:40],
                'model': self.model.stats(),
                'informational': self.infos[:60],
                'known_findings_reported': [
                    {'id': k.get('id'), 'rule': v['rule'],
                     'construct': v['construct']} for k, v in known_hits],
            },
            'assumptions': self.assumptions,
            'wall_s': round(wall, 3),
            'violations': len(new),
        }
        from . import sym as _sym
        ev['coverage']['path_enumeration'] = dict(_sym.STATS)
        ev['coverage'].update(self.extra)
        if self_test is not None:
            ev['coverage']['selftest'] = self_test
        os.makedirs(self.evidence_dir, exist_ok=True)
        path = os.path.join(self.evidence_dir, self.prop + '.json')
        with open(path, 'w') as f:
            json.dump(ev, f, indent=1, default=str)
        vpath = os.path.join(self.evidence_dir,
                             self.prop + '.violations.json')
        if not self.quiet:
            for rid, r in self.rules.items():
                print('%s %-9s instances=%-4d violations=%-3d %s' % (
                    self.prop, rid, r['instances'], r['violations'],
                    r['desc'][:100]))
            for t in self.infos:
                print('INFO: ' + t)
        for k, v in known_hits:
            print('KNOWN-FINDING: property=%s %s [%s %s] %s' % (
                self.prop, k.get('id', ''), v['rule'], v['construct'],
                k.get('what', v['reason'])))
        if new:
            with open(vpath, 'w') as f:
                json.dump({'property': self.prop, 'violations': new}, f,
                          indent=1, default=str)
            for v in new:
                print('  violated %s at %s: %s :: %s' % (
                    v['rule'], v['where'], v['construct'], v['reason']))
            print('VIOLATION property=%s replay=%s' % (self.prop, vpath))
            return 1
        if os.path.exists(vpath):
            os.remove(vpath)
        if not self.quiet:
            print('%s: %d obligations, all discharged%s (%.2fs)' % (
                self.prop, n_ob,
                ' except %d known finding(s)' % len(known_hits)
                if known_hits else '', wall))
        return 0


def load_known():
    p = os.path.join(VERIF, 'known_findings.json')
    if not os.path.exists(p):
        return []
    with open(p) as f:
        return json.load(f).get('findings', [])


def match_known(known, prop, v):
    for k in known:
        if k.get('status') != 'open':
            continue          # 'fixed' entries suppress nothing
        if k.get('property') != prop or k.get('rule') != v['rule']:
            continue
        if k.get('construct') and k['construct'] != v['construct']:
            continue
        if k.get('key') and k['key'] not in v['key']:
            continue
        return k
    return None
