"""C04 - server connection lifecycle.

R1 asyncio once-only gate: no suspension point between the connected-test
   and the pre_disconnect mark (disconnect, _handle_disconnect).
R2 gate -> mark -> handler -> release on every path that triggers
   'disconnect' (threaded and asyncio).
R3 only disconnect() and _handle_disconnect() trigger 'disconnect'.
R4 admission / refusal shape of _handle_connect.
R5 transport loss ends every namespace.
R6 pending means not connected; duplicate connect yields None.
R7 ConnectionRefusedError message/data table.
R8 the reported reason names a cause in progress.
"""
import ast

from ..known_names import KNOWN_NAMES

from ..model import AnalysisError
from ..sym import U, is_const, Run, run_function
from ..util import (bind_call, strip_await, where, same, SA, SERVER, MANAGER,
                    PUBSUB, ns_or_default, eval_cmp, num_val, walk_own)
from .common import (effects, sends, packet_ctor, trigger_calls,
                     caught_origin, txt)

GATE_NAMES = ('is_connected', 'can_disconnect')


def gate_call(run, cond):
    """If the cond's atom is (the result of) manager.is_connected /
    can_disconnect, return the expanded Call."""
    a = strip_await(run.expand(cond.atom))
    if isinstance(a, ast.Call) and isinstance(a.func, ast.Attribute) and \
            a.func.attr in GATE_NAMES and U(a.func.value) == 'self.manager':
        return a
    return None


def sid_ns_of(call, model, fam, name):
    tgt = model.method(MANAGER[fam], name)
    b = bind_call(call, tgt)
    return txt(b.get('sid')), txt(b.get('namespace'))


def truthy_paths_clean(ctx, target, eff, depth=0):
    """Callee summary for can_disconnect targets: on every path that may
    return a truthy value, is_connected is consulted and nothing can suspend
    after its last consultation.  -> (ok, reason)"""
    m = ctx.model
    run = run_function(target, m)
    for p in run.paths:
        if p.exit != 'return' or p.value is None:
            continue
        v = strip_await(run.expand(p.value))
        if isinstance(v, ast.Constant) and not v.value:
            continue
        tests = [e for e in p.events if e.kind == 'call' and
                 e.callee() in GATE_NAMES]
        if not tests:
            return False, '%s may return %s without consulting ' \
                'is_connected' % (target.qualname, U(v)[:40])
        last = tests[-1]
        if last.callee() == 'can_disconnect':
            kind, tg = m.resolve_call(target, last.node)
            for t in tg:
                if depth > 3:
                    return False, 'can_disconnect delegation too deep'
                ok, why = truthy_paths_clean(ctx, t, eff, depth + 1)
                if not ok:
                    return ok, why
        for e in p.events[last.idx + 1:]:
            if e.kind == 'await' and eff.event_may_suspend(target, e):
                # the await of the delegated can_disconnect itself is judged
                # by the recursive summary
                if isinstance(e.node, ast.Await) and \
                        e.node.value is last.node:
                    kind, tg = m.resolve_call(target, last.node)
                    if tg and all(not eff.may_suspend(t) for t in tg):
                        continue
                return False, '%s can suspend at line %d after its ' \
                    'connected-test' % (target.qualname, e.lineno)
    return True, ''


def r1_r2_site(ctx, fam, fname):
    m = ctx.model
    eff = effects(ctx)
    f = m.method(SERVER[fam], fname)
    construct = '%s.%s' % (SERVER[fam], fname)
    w = where(f)
    run = run_function(f, m, raiser=eff.app_raiser(f))
    n_trig = 0
    seen = set()
    for p in run.paths:
        for T in trigger_calls(p, 'disconnect'):
            n_trig += 1
            a = [run.expand(x) for x in T.expr.args]
            if len(a) < 3:
                ctx.bad(construct, 'trigger-shape', 'disconnect trigger '
                        'without (namespace, sid): ' + U(T.expr), w, rid='C04.R2')
                continue
            t_ns, t_sid = U(a[1]), U(a[2])
            # --- gate
            gates = []
            for c in p.conds:
                if c.at <= T.idx and c.pol:
                    g = gate_call(run, c)
                    if g is not None:
                        gates.append((c, g))
            good_gate = None
            for c, g in gates:
                sid, ns = sid_ns_of(g, m, fam, g.func.attr)
                if sid == t_sid and ns == t_ns and good_gate is None:
                    # the first true test on the path (a repair may test the
                    # captured verdict again after releasing its lock)
                    good_gate = (c, g)
            key = (T.lineno, 'gate', bool(good_gate))
            if key not in seen:
                seen.add(key)
                ctx.check(good_gate is not None, construct,
                          "'disconnect' trigger dominated by a true "
                          'connected-test on the same (sid, namespace)',
                          key='gate', reason="the 'disconnect' handler can "
                          'run on a path without a true is_connected/'
                          'can_disconnect test for (%s, %s): %s' % (
                              t_sid[:50], t_ns, p.describe()[:200]),
                          where=where(f, T.node), rid='C04.R2')
            if good_gate is None:
                continue
            c, g = good_gate
            # the namespace the handler is told is the normalised one
            key = (T.lineno, 'ns-normalised')
            if key not in seen:
                seen.add(key)
                ctx.check(ns_or_default(a[1]) is not None, construct,
                          "the namespace is normalised (`or '/'`) before the "
                          'sid is looked up and the handler told',
                          key='ns-normalised', reason="the disconnect path "
                          'works with the raw namespace %s: a packet on the '
                          'default namespace (None) is looked up under None '
                          'and silently ignored' % t_ns,
                          where=where(f, T.node), rid='C04.R2')
            # disconnect(): ignore_queue selects the local test, otherwise
            # the manager decides (a pub/sub manager forwards the request)
            iq = [cc for cc in p.conds if cc.at <= c.at and
                  U(cc.atom) == 'ignore_queue']
            if iq:
                key = (T.lineno, 'gate-choice', iq[-1].pol)
                if key not in seen:
                    seen.add(key)
                    want_gate = 'is_connected' if iq[-1].pol else \
                        'can_disconnect'
                    ctx.check(g.func.attr == want_gate, construct,
                              'ignore_queue=%s selects %s' % (iq[-1].pol,
                                                              want_gate),
                              key='gate-choice', reason='with ignore_queue='
                              '%s the gate is %s: %s' % (
                                  iq[-1].pol, g.func.attr,
                                  'a request for a client of another host '
                                  'is no longer forwarded through the queue'
                                  if not iq[-1].pol else 'the local request '
                                  'is published to the queue again'),
                              where=where(f, T.node), rid='C04.R2')
            # --- mark
            marks = [e for e in p.calls('pre_disconnect')
                     if e.idx < T.idx and e.idx >= c.at and
                     e.recv() == 'self.manager' and
                     sid_ns_of(run.expand(e.expr), m, fam,
                               'pre_disconnect') == (t_sid, t_ns)]
            key = (T.lineno, 'mark', bool(marks))
            if key not in seen:
                seen.add(key)
                ctx.check(bool(marks), construct,
                          'pre_disconnect(sid, namespace) between the test '
                          'and the handler', key='mark',
                          reason='the client is not marked as disconnecting '
                          '(pre_disconnect for the same sid/namespace) '
                          'before its disconnect handler runs',
                          where=where(f, T.node), rid='C04.R2')
            # --- release on normal paths
            if p.normal:
                rel = [e for e in p.calls('disconnect')
                       if e.idx > T.idx and e.recv() == 'self.manager' and
                       sid_ns_of(run.expand(e.expr), m, fam,
                                 'disconnect') == (t_sid, t_ns)]
                for r_ in rel:
                    iq = {k.arg: k.value for k in r_.expr.keywords}.get(
                        'ignore_queue')
                    key = (r_.lineno, 'release-local')
                    if key not in seen:
                        seen.add(key)
                        ctx.check(is_const(iq, True), construct,
                                  'the release after the handler is local: '
                                  'manager.disconnect(..., ignore_queue='
                                  'True)', key='release-local',
                                  reason='the release that follows the '
                                  'disconnect handler is called with '
                                  'ignore_queue=%s: a pub/sub manager then '
                                  'routes it through the queue and its local '
                                  'step (server.disconnect) finds the client '
                                  'already marked, so the owning host never '
                                  'forgets the client' % txt(iq),
                                  where=where(f, r_.node), rid='C04.R2')
                key = (T.lineno, 'release', bool(rel))
                if key not in seen:
                    seen.add(key)
                    ctx.check(bool(rel), construct,
                              'manager.disconnect(sid, namespace) follows '
                              'the handler on normal paths', key='release',
                              reason='after the disconnect handler the '
                              'manager is not told to forget the client on '
                              'path ' + p.describe()[:160],
                              where=where(f, T.node), rid='C04.R2')
            # --- R1: atomic window (asyncio only)
            if fam == 'async' and marks:
                mark = marks[0]
                tests = [e for e in p.events[:c.at] if e.kind == 'call' and
                         e.callee() in GATE_NAMES and
                         e.recv() == 'self.manager']
                if not tests:
                    ctx.bad(construct, 'window-test', 'cannot locate the '
                            'connected-test call event', w, rid='C04.R1')
                    continue
                test = tests[-1]
                bad = None
                for e in p.events[test.idx + 1:mark.idx]:
                    if e.kind != 'await' or not eff.event_may_suspend(f, e):
                        continue
                    if isinstance(e.node, ast.Await) and \
                            e.node.value is test.node:
                        # await of the test coroutine itself: judged by the
                        # summary of every CHA target
                        kind, tg = m.resolve_call(f, test.node)
                        why = None
                        for t in tg:
                            ok, why = truthy_paths_clean(ctx, t, eff)
                            if not ok:
                                break
                        else:
                            continue
                        bad = (e, why)
                        break
                    bad = (e, 'suspension point `%s`' % U(e.node)[:60])
                    break
                key = (T.lineno, 'window', test.lineno, mark.lineno,
                       bad[1] if bad else None)
                if key not in seen:
                    seen.add(key)
                    ctx.check(bad is None, construct,
                              'no suspension point between the connected-'
                              'test (line %d) and pre_disconnect (line %d)'
                              % (test.lineno, mark.lineno), key='window',
                              reason='another task can run between the '
                              'connected-test and the mark: %s' % (
                                  bad[1] if bad else ''),
                              where=where(f, bad[0].node if bad else None),
                              rid='C04.R1')
    if not n_trig:
        ctx.bad(construct, 'no-trigger', "function no longer triggers the "
                "'disconnect' event", w, rid='C04.R2')


def r3_ownership(ctx, fam):
    m = ctx.model
    cls = m.cls(SERVER[fam])
    owners = []
    for name, f in cls.methods.items():
        for n in m._walk_own(f.node):
            if isinstance(n, ast.Call) and isinstance(n.func, ast.Attribute) \
                    and n.func.attr == '_trigger_event' and n.args and \
                    is_const(n.args[0], 'disconnect'):
                owners.append((name, n))
    names = sorted({o[0] for o in owners})
    for name, n in owners:
        ctx.check(name in ('disconnect', '_handle_disconnect'),
                  '%s.%s' % (cls.name, name),
                  "may trigger 'disconnect'", key='owner',
                  reason="'disconnect' is triggered from %s, outside the "
                  'two gated functions' % name,
                  where=where(cls.methods[name], n))
    for need in ('disconnect', '_handle_disconnect'):
        if need not in names:
            ctx.bad('%s.%s' % (cls.name, need), 'owner-missing',
                    "no longer triggers 'disconnect'", where(
                        cls.methods[need]) if need in cls.methods else None)
    # managers and other server-side classes never trigger it directly
    for c in m.classes.values():
        if c is cls or 'Client' in c.name or c.name in (
                'Server', 'AsyncServer'):
            continue
        for name, f in c.methods.items():
            for n in m._walk_own(f.node):
                if isinstance(n, ast.Call) and \
                        isinstance(n.func, ast.Attribute) and \
                        n.func.attr == '_trigger_event' and n.args and \
                        is_const(n.args[0], 'disconnect') and \
                        m.family(c.name) == fam and \
                        not c.name.startswith('Instrumented'):
                    ctx.bad('%s.%s' % (c.name, name), 'owner-foreign',
                            "'disconnect' triggered outside the server",
                            where(f, n))


def served_atom(atom, ns_ast):
    """one of the four disjuncts of the served-namespace condition"""
    if not isinstance(atom, ast.Compare) or len(atom.ops) != 1:
        return False
    op, l, r = atom.ops[0], atom.left, atom.comparators[0]
    if isinstance(op, ast.In) and same(l, ns_ast) and U(r) in (
            'self.handlers', 'self.namespace_handlers', 'self.namespaces'):
        return True
    if isinstance(op, ast.Eq) and U(l) == 'self.namespaces' and \
            is_const(r, '*'):
        return True
    return False


MUTATORS = {'add', 'append', 'update', 'pop', 'discard', 'clear',
            'setdefault', 'remove', 'insert', 'extend', 'popitem'}


def r4_connect(ctx, fam):
    m = ctx.model
    eff = effects(ctx)
    f = m.method(SERVER[fam], '_handle_connect')
    construct = SERVER[fam] + '._handle_connect'
    w = where(f)
    run = run_function(f, m, raiser=eff.app_raiser(f))
    counts = dict(admit=0, unserved=0, dup=0, accept=0, refuse=0)
    eio_p, ns_p, data_p = f.params[1:4]

    def once(key, cond, what, reason, node=None):
        k = (key, bool(cond))
        if k in once.seen:
            return
        once.seen.add(k)
        ctx.check(cond, construct, what, key=key, reason=reason,
                  where=where(f, node))
    once.seen = set()

    for p in run.paths:
        conn = [e for e in p.calls('connect') if e.recv() == 'self.manager']
        trig = trigger_calls(p, 'connect')
        S = sends(run, p)
        types = [pk['type'] if pk else None for _, pk, _ in S]
        # every packet goes to the requesting transport, on its namespace
        for e, pk, tgt in S:
            once('send-target', U(tgt) == eio_p and pk is not None and
                 pk.get('namespace') is not None and
                 ns_or_default(pk['namespace']) is not None and
                 U(ns_or_default(pk['namespace'])) == ns_p,
                 'answers go to the requesting transport on the requested '
                 'namespace', 'packet %s sent to %s on namespace %s' % (
                     pk['type'] if pk else '?', U(tgt),
                     txt(pk.get('namespace')) if pk else '?'), e.node)
        if not conn:
            # namespace not served
            counts['unserved'] += 1
            once('unserved', not trig and types == ['CONNECT_ERROR'] and
                 p.normal and not p.calls('pre_disconnect'),
                 'unserved namespace: refused with CONNECT_ERROR, no handler',
                 'path without manager.connect: triggers=%d packets=%s '
                 'exit=%s' % (len(trig), types, p.exit))
            continue
        c0 = conn[0]
        counts['admit'] += 1
        # (i) admission only under the served-namespace condition
        ns_ast = run.expand(bind_call(c0.expr, m.method(
            MANAGER[fam], 'connect')).get('namespace'))
        def served(a):
            if isinstance(a, ast.BoolOp) and isinstance(a.op, ast.Or):
                return all(served(v) for v in a.values)
            return served_atom(a, ns_ast)
        dom = [c for c in p.conds if c.at <= c0.idx and c.pol and
               served(run.expand(c.atom))]
        once('served-guard', bool(dom),
             'manager.connect only under the served-namespace condition',
             'manager.connect reachable without a true served-namespace '
             'test: ' + p.describe()[:200], c0.node)
        b = bind_call(c0.expr, m.method(MANAGER[fam], 'connect'))
        once('connect-args', U(b.get('eio_sid')) == eio_p and
             ns_or_default(run.expand(b.get('namespace'))) is not None,
             'manager.connect(own transport id, requested namespace)',
             'manager.connect called with (%s, %s)' % (
                 txt(b.get('eio_sid')), txt(b.get('namespace'))), c0.node)
        # sid symbol
        sid_none = None
        for c in p.conds:
            a = c.atom
            if isinstance(a, ast.Compare) and isinstance(a.ops[0], ast.Is) \
                    and is_const(a.comparators[0], None):
                d = run.expand(a.left)
                dd = strip_await(d)
                if isinstance(dd, ast.Call) and U(dd.func) == \
                        'self.manager.connect':
                    sid_none = c.pol
        if sid_none is None:
            once('sid-test', False, 'the result of manager.connect is tested '
                 'for None before use', 'a path uses the result of '
                 'manager.connect without testing it for None: '
                 + p.describe()[:160], c0.node)
            continue
        if sid_none:
            counts['dup'] += 1
            touched = []

            def keyed(node):
                # state keyed by the requesting client (a plain statistics
                # counter is not)
                return any(isinstance(x, ast.Name) and x.id in (eio_p, ns_p)
                           for x in ast.walk(run.expand(node)))
            for e in p.events:
                if e.kind in ('store', 'del') and \
                        U(run.expand(e.expr)).startswith('self.') and \
                        keyed(e.expr):
                    touched.append(e)
                elif e.kind == 'call' and e.callee() in MUTATORS and \
                        isinstance(e.expr.func, ast.Attribute) and \
                        U(run.expand(e.expr.func.value)).startswith(
                            'self.') and 'logger' not in U(e.expr) and \
                        keyed(e.expr):
                    touched.append(e)
            once('dup-no-effect', not touched, 'a refused (duplicate) '
                 'CONNECT leaves the server state untouched: the connection '
                 'that already exists on this transport and namespace is '
                 'not affected', 'a CONNECT that is refused because the '
                 'transport is already connected to the namespace modifies '
                 'server state (%s): the live connection is affected by a '
                 'request that was refused' % ', '.join(
                     U(e.expr)[:60] for e in touched[:2]),
                 touched[0].node if touched else None)
            once('dup', not trig and types == ['CONNECT_ERROR'] and p.normal,
                 'duplicate/failed admission: CONNECT_ERROR, no handler',
                 'sid None path: triggers=%d packets=%s exit=%s' % (
                     len(trig), types, p.exit))
            continue
        # the handler
        if not trig:
            if p.exit != 'exc':
                once('no-handler', False, 'admitted connection runs the '
                     'connect handler', 'admitted path without connect '
                     'handler: ' + p.describe()[:160])
            continue
        completed = [t for t in trig if caught_origin(p, t) is None and
                     not (p.exit == 'exc' and p.origin is t)]
        for t in trig:
            c = caught_origin(p, t)
            if c is not None and t is not trig[-1]:
                once('retry', 'TypeError' in U(c.expr),
                     'a second invocation only after TypeError (legacy '
                     'signature retry)', 'connect handler re-invoked after '
                     'catching %s' % U(c.expr), t.node)
            a = [run.expand(x) for x in t.expr.args]
            sid_arg = strip_await(a[2]) if len(a) > 2 else None
            okargs = len(a) >= 4 and isinstance(sid_arg, ast.Call) and \
                U(sid_arg.func) == 'self.manager.connect' and \
                U(a[3]) == 'self.environ[%s]' % eio_p and \
                ns_or_default(a[1]) is not None and \
                (len(a) == 4 or (len(a) == 5 and (
                    U(a[4]) == data_p or is_const(a[4], None))))
            once('handler-args', okargs, 'connect handler receives (sid, '
                 'environ of the transport[, auth data])',
                 'connect handler invoked as %s' % U(t.expr)[:120], t.node)
        if len(completed) > 1:
            once('handler-once', False, 'connect handler completes once',
                 'connect handler completes %d times on a path' % len(
                     completed))
        if not p.normal:
            continue
        always = None
        for c in p.conds:
            if c.text == 'self.always_connect':
                always = c.pol
        refused = None
        for c in p.conds:
            a = c.atom
            if isinstance(a, ast.Compare) and isinstance(a.ops[0], ast.Is) \
                    and is_const(a.comparators[0], False):
                refused = c.pol
        refused_exc = any(e.kind == 'caught' and
                          'ConnectionRefusedError' in U(e.expr)
                          for e in p.events)
        if refused is None:
            once('success-test', False, 'handler result tested with '
                 '`is False`', 'no `success is False` test on path '
                 + p.describe()[:160])
            continue
        if refused_exc and not refused:
            once('refusal-exc', False, 'ConnectionRefusedError leads to the '
                 'refusal branch', 'a caught ConnectionRefusedError does '
                 'not end in refusal')
        if always is None:
            once('always-test', False, 'always_connect consulted',
                 'path does not consult always_connect')
            continue
        n_conn = types.count('CONNECT')
        if not refused:
            counts['accept'] += 1
            once('accept', n_conn == 1 and 'CONNECT_ERROR' not in types and
                 'DISCONNECT' not in types and not p.calls('pre_disconnect')
                 and not [e for e in p.calls('disconnect')
                          if e.recv() == 'self.manager'],
                 'accepted: exactly one CONNECT, nothing else, membership '
                 'kept', 'accepted path sends %s (always_connect=%s)' % (
                     types, always))
            for e, pk, _ in S:
                if pk and pk['type'] == 'CONNECT':
                    d = pk.get('data')
                    okd = isinstance(d, ast.Dict) and len(d.keys) == 1 and \
                        is_const(d.keys[0], 'sid') and \
                        U(strip_await(d.values[0])).startswith(
                            'self.manager.connect(')
                    once('connect-sid', okd, 'CONNECT carries {sid: new sid}',
                         'CONNECT payload is %s' % txt(d), e.node)
                    pos = 'before' if e.idx < trig[0].idx else 'after'
                    once('connect-order', (pos == 'before') == always,
                         'CONNECT before the handler iff always_connect',
                         'CONNECT sent %s the handler with always_connect=%s'
                         % (pos, always), e.node)
        else:
            counts['refuse'] += 1
            rel = [e for e in p.calls('disconnect')
                   if e.recv() == 'self.manager']
            want = ['CONNECT', 'DISCONNECT'] if always else ['CONNECT_ERROR']
            once('refuse', types == want and len(rel) == 1,
                 'refused: %s then manager.disconnect' % want,
                 'refused path (always_connect=%s) sends %s and releases %d '
                 'times' % (always, types, len(rel)))
            if types != want or not rel:
                continue
            e, pk, _ = S[-1]
            d = pk.get('data')
            dx = U(d) if d is not None else ''
            src_ok = dx == 'exceptions.ConnectionRefusedError().error_args' \
                or dx == 'ConnectionRefusedError().error_args'
            if isinstance(d, ast.Attribute) and d.attr == 'error_args' and \
                    isinstance(d.value, ast.Name):
                sd = run.symdefs.get(d.value.id)
                if sd and sd['kind'] == 'exc':
                    src_ok = True
            once('fail-reason', src_ok and (refused_exc == (
                isinstance(d, ast.Attribute) and
                isinstance(d.value, ast.Name))),
                 'refusal packet carries the refusal\'s error_args',
                 'refusal packet data is %s (refused by exception: %s)' % (
                     dx, refused_exc), e.node)
            once('release-after', rel[0].idx > e.idx,
                 'membership released after the refusal packet',
                 'manager.disconnect precedes the refusal packet', e.node)
            b = bind_call(rel[0].expr, m.method(MANAGER[fam], 'disconnect'))
            sidx = strip_await(run.expand(b.get('sid')))
            once('release-args', isinstance(sidx, ast.Call) and
                 U(sidx.func) == 'self.manager.connect' and
                 ns_or_default(run.expand(b.get('namespace'))) is not None,
                 'release names the new sid and namespace',
                 'manager.disconnect called as %s' % U(rel[0].expr)[:100])
            iqv = {k.arg: k.value for k in rel[0].expr.keywords}.get(
                'ignore_queue')
            once('release-local', is_const(iqv, True), 'the release of a '
                 'refused connection is local (ignore_queue=True)',
                 'the refused sid is released with ignore_queue=%s: a '
                 'pub/sub manager publishes a disconnect for a client that '
                 'was never accepted, and its local step runs the disconnect '
                 'handler for it' % txt(iqv), rel[0].node)
            if always:
                marks = [x for x in p.calls('pre_disconnect')
                         if x.idx < e.idx]
                once('refuse-mark', bool(marks), 'always_connect refusal: '
                     'marked as disconnecting before the DISCONNECT',
                     'DISCONNECT sent without a preceding pre_disconnect',
                     e.node)
    for k, what in (('unserved', 'unserved-namespace path'),
                    ('dup', 'sid-is-None path'), ('accept', 'accept path'),
                    ('refuse', 'refusal path')):
        if not counts[k]:
            ctx.bad(construct, 'missing ' + what, '_handle_connect has no '
                    + what, w)


def r5_eio_disconnect(ctx, fam):
    m = ctx.model
    f = m.method(SERVER[fam], '_handle_eio_disconnect')
    construct = SERVER[fam] + '._handle_eio_disconnect'
    w = where(f)
    run = run_function(f, m)
    ok_any = False
    for p in run.paths:
        if not p.normal:
            continue
        hd = p.calls('_handle_disconnect')
        iters = [e for e in p.events if e.kind == 'iter']
        if not hd:
            continue
        ok_any = True
        for e in hd:
            a = [run.expand(x) for x in e.expr.args]
            lv = run.symdefs.get(a[1].id) if len(a) > 1 and \
                isinstance(a[1], ast.Name) else None
            src = U(lv['expr']) if lv and lv['kind'] == 'loopvar' else ''
            ctx.check(len(a) == 3 and U(a[0]) == f.params[1] and
                      U(a[2]) == f.params[2] and
                      'self.manager.get_namespaces()' in src and
                      ('list(' in src or 'copy' in src or 'tuple(' in src),
                      construct, 'every namespace of the manager (copied '
                      'listing) is ended with the transport id and the '
                      "engine.io reason unchanged", key='loop',
                      reason='_handle_disconnect called as %s over %s' % (
                          U(e.expr), src), where=where(f, e.node))
    if not ok_any:
        ctx.bad(construct, 'no-loop', 'transport loss no longer ends the '
                'namespaces through _handle_disconnect', w)
    # the loop has no early exit: every iteration path reaches the next one
    for n in ast.walk(f.node):
        if isinstance(n, (ast.For, ast.AsyncFor)):
            for s in ast.walk(n):
                if isinstance(s, (ast.Break, ast.Return)):
                    ctx.bad(construct, 'early-exit', 'the namespace loop can '
                            'stop before all namespaces are ended',
                            where(f, s))


def r9_refusal_contained(ctx, fam):
    """every invocation of the connect handler may raise
    ConnectionRefusedError (or TypeError: legacy signature); a refusal raised
    by ANY invocation - the retry included - is caught inside
    _handle_connect and ends in the refusal branch."""
    m = ctx.model
    f = m.method(SERVER[fam], '_handle_connect')
    construct = SERVER[fam] + '._handle_connect'

    def raiser(e):
        if e.kind == 'call' and e.callee() == '_trigger_event' and \
                e.expr.args and is_const(e.expr.args[0], 'connect'):
            return [{'TypeError'}, {'ConnectionRefusedError'},
                    {'RuntimeError'}]
        return None
    run = run_function(f, m, raiser=raiser)
    n = 0
    seen = set()
    for p in run.paths:
        trig = trigger_calls(p, 'connect')
        if not trig:
            continue
        # a connect handler that failed (any other exception) has not
        # accepted the client
        failed = [e for e in p.events if e.kind == 'caught' and
                  e.extra is not None and e.extra.types == {'RuntimeError'}
                  and e.extra.origin in trig]
        if failed and p.normal:
            S = sends(run, p)
            types = [pk['type'] if pk else None for e_, pk, _ in S
                     if e_.idx > failed[0].idx]
            rel = [e for e in p.calls('disconnect')
                   if e.recv() == 'self.manager']
            key = ('fails-open', failed[0].lineno)
            if key not in seen:
                seen.add(key)
                ctx.check('CONNECT' not in types and bool(rel), construct,
                          'a connect handler that raised has not accepted '
                          'the client', key='handler-error-accepts',
                          reason='an exception of the connect handler other '
                          'than ConnectionRefusedError is caught (line %d) '
                          'and the request then takes the accepting branch '
                          '(packets %s, %d release(s)): a handler that '
                          'failed - e.g. a credential predicate raising on a '
                          'malformed payload - admits the client' % (
                              failed[0].lineno, types, len(rel)),
                          where=where(f, failed[0].node))
            continue
        if p.exit == 'exc' and p.types == {'ConnectionRefusedError'}:
            n += 1
            if id(p.origin.node if p.origin else None) in seen:
                continue
            seen.add(id(p.origin.node if p.origin else None))
            ctx.bad(construct, 'refusal-escapes', 'a ConnectionRefusedError '
                    'raised by invocation #%d of the connect handler (line '
                    '%d) is not caught: no CONNECT_ERROR is sent and the '
                    'refused sid keeps its membership' % (
                        trig.index(p.origin) + 1 if p.origin in trig else 0,
                        p.origin.lineno if p.origin else 0),
                    where(f, p.origin.node if p.origin else None))
            continue
        refused = [e for e in p.events if e.kind == 'caught' and
                   'ConnectionRefusedError' in U(e.expr)]
        if refused and p.normal:
            n += 1
            rel = [e for e in p.calls('disconnect')
                   if e.recv() == 'self.manager']
            S = sends(run, p)
            types = [pk['type'] if pk else None for _, pk, _ in S]
            ctx.check(len(rel) == 1 and (
                'CONNECT_ERROR' in types or 'DISCONNECT' in types),
                construct, 'caught refusal (handler invocation #%d): refusal '
                'packet and release' % len(trig), key='refusal-handled',
                reason='a caught ConnectionRefusedError leads to packets %s '
                'and %d release(s)' % (types, len(rel)), where=where(f))
    if not n:
        ctx.bad(construct, 'no-refusal-path', 'no path catches a '
                'ConnectionRefusedError of the connect handler', where(f))


def r10_can_disconnect(ctx):
    """every implementation of can_disconnect answers true only through
    is_connected (directly or through the inherited implementation): the
    "being disconnected" mark and the membership are consulted by the gate
    Server.disconnect() uses by default."""
    m = ctx.model
    n = 0
    for c in m.classes.values():
        f = c.methods.get('can_disconnect')
        if f is None:
            continue
        n += 1
        construct = '%s.can_disconnect' % c.name
        sid, ns = f.params[1:3]
        run = run_function(f, m)
        for p in run.paths:
            if p.exit != 'return' or p.value is None:
                continue
            v = strip_await(run.expand(p.value))
            if is_const(v, None) or is_const(v, False):
                continue
            good = isinstance(v, ast.Call) and (
                U(v.func) in ('self.is_connected',
                              'super().can_disconnect') and
                [U(a) for a in v.args] == [sid, ns])
            ctx.check(good, construct, 'a true answer is the answer of '
                      'is_connected(sid, namespace)', key='can-disconnect',
                      reason='can_disconnect answers %s without asking '
                      'is_connected: a client another thread / task has '
                      'already marked as disconnecting is disconnected a '
                      'second time (handler runs twice, the mark is left '
                      'behind)' % txt(v), where=where(f))
    if n < 4:
        raise AnalysisError('only %d can_disconnect implementations found'
                            % n)


def r11_environ_lifetime(ctx, fam):
    """the request environment of a transport is needed by every later
    CONNECT on it (the connect handler receives it): it is removed only
    where the transport ends.  Removal sites of self.environ[...] outside
    _handle_eio_disconnect (and helpers only it calls) are reported."""
    m = ctx.model
    S = SERVER[fam]
    n = 0
    callers = {}
    for cn in (S, 'BaseServer'):
        for g in m.cls(cn).methods.values():
            for y in walk_own(g.node):
                if isinstance(y, ast.Call) and \
                        isinstance(y.func, ast.Attribute) and \
                        U(y.func.value) == 'self':
                    callers.setdefault(y.func.attr, set()).add(g.name)
    for cn in (S, 'BaseServer'):
        for g in m.cls(cn).methods.values():
            for y in walk_own(g.node):
                site = None
                if isinstance(y, ast.Delete):
                    for t in y.targets:
                        if isinstance(t, ast.Subscript) and \
                                U(t.value) == 'self.environ':
                            site = y
                if isinstance(y, ast.Call) and \
                        isinstance(y.func, ast.Attribute) and \
                        y.func.attr in ('pop', 'clear', 'popitem') and \
                        U(y.func.value) == 'self.environ':
                    site = y
                if site is None:
                    continue
                n += 1
                who = {g.name}
                if g.name not in KNOWN_NAMES:
                    who = callers.get(g.name, set()) or {g.name}
                ctx.check(who <= {'_handle_eio_disconnect'},
                          '%s.%s' % (cn, g.name), 'environ[transport] is '
                          'removed only when the transport ends',
                          key='environ-removed-early', reason='%s removes '
                          'the request environment of a transport that is '
                          'still open (reached from %s): the next CONNECT '
                          'on it registers a session and then fails with '
                          'KeyError before the connect handler runs or any '
                          'answer is sent' % (g.name, sorted(who)),
                          where=where(g, site))
    if not n:
        raise AnalysisError(S + ': no removal site of self.environ found')


def r6_manager(ctx):
    m = ctx.model
    f = m.method('BaseManager', 'is_connected')
    construct = 'BaseManager.is_connected'
    # the manager's own one-line lookup accessors are looked through, so
    # that `self.eio_sid_from_sid(sid, ns) is not None` is read as the
    # membership test it is
    from ..sym import new_helper_resolver
    base_res = new_helper_resolver(f, m)

    def resolver(call):
        t = base_res(call)
        if t is not None:
            return t
        fn = call.func
        if isinstance(fn, ast.Attribute) and U(fn.value) == 'self' and \
                fn.attr in ('eio_sid_from_sid', 'sid_from_eio_sid'):
            g = m.lookup(m.cls('BaseManager'), fn.attr)
            if g is not None and len(list(ast.walk(g.node))) < 200:
                return g.node
        return None
    run = run_function(f, m, raiser=lambda e: None, inline_resolver=resolver)
    sid, ns = f.params[1:3]
    n_pending = 0
    for p in run.paths:
        pend = []
        for c in p.conds:
            a = run.expand(c.atom)
            if c.pol and isinstance(a, ast.Compare) and \
                    isinstance(a.ops[0], ast.In) and \
                    U(a.left) == sid and \
                    U(a.comparators[0]).startswith(
                        'self.pending_disconnect') and ns in {
                            n.id for n in ast.walk(a.comparators[0])
                            if isinstance(n, ast.Name)}:
                pend.append(c)
        if pend:
            n_pending += 1
            ctx.check(p.exit == 'return' and is_const(p.value, False),
                      construct, 'pending_disconnect member => False',
                      key='pending-false', reason='a client marked as '
                      'disconnecting is reported as %s' % txt(p.value),
                      where=where(f))
        if p.exit == 'return' and p.value is not None and \
                not is_const(p.value, False) and \
                U(run.expand(p.value)) not in ('None is not None',
                                               'False'):
            # a possibly-true answer must have consulted pending first
            notpend = [c for c in p.conds if 'pending_disconnect' in c.text
                       or 'pending_disconnect' in U(run.expand(c.atom))]
            ctx.check(bool(notpend) and 'self.rooms[%s][None]' % ns in
                      U(run.expand(p.value)), construct,
                      'a true answer requires '
                      'membership in rooms[ns][None] and follows the '
                      'pending test', key='true-answer',
                      reason='is_connected can answer %s without consulting '
                      'pending_disconnect' % U(p.value), where=where(f))
    if not n_pending:
        ctx.bad(construct, 'no-pending-test', 'is_connected does not '
                'consult pending_disconnect', where(f))
    # connect(): duplicate => None, personal room only on success
    f = m.method('BaseManager', 'connect')
    construct = 'BaseManager.connect'

    def raiser(e):
        if e.callee() == 'basic_enter_room':
            return {'ValueDuplicationError'}
        return None
    run = run_function(f, m, raiser=raiser)
    n_dup = n_ok = 0
    for p in run.paths:
        enters = p.calls('basic_enter_room')
        caught = [e for e in p.events if e.kind == 'caught']
        if caught and p.normal:
            first = caught[0].extra.origin
            if first is enters[0]:
                n_dup += 1
                ctx.check(is_const(p.value, None) and len(enters) == 1,
                          construct, 'duplicate (transport, namespace): '
                          'returns None, enters nothing else',
                          key='dup-none', reason='duplicate connection '
                          'returns %s after %d room entries' % (
                              txt(p.value), len(enters)), where=where(f))
        elif p.normal:
            n_ok += 1
            rooms = []
            for e in enters:
                b = bind_call(e.expr, m.method('BaseManager',
                                               'basic_enter_room'))
                rooms.append((U(run.expand(b.get('room'))),
                              U(run.expand(b.get('eio_sid'))),
                              U(run.expand(b.get('namespace')))))
            sidv = U(run.expand(p.value)) if p.value is not None else None
            ctx.check(len(rooms) == 2 and rooms[0][0] == 'None' and
                      rooms[1][0] == sidv and
                      all(r[1] == f.params[1] and r[2] == f.params[2]
                          for r in rooms) and 'generate_id' in (sidv or ''),
                      construct, 'success: enters room None then the '
                      'personal room with a freshly generated sid, returns '
                      'it', key='connect-ok', reason='connect enters %s and '
                      'returns %s' % (rooms, sidv), where=where(f))
    if not n_dup or not n_ok:
        ctx.bad(construct, 'paths', 'connect lacks the duplicate or the '
                'success path', where(f))
    # pre_disconnect marks and returns the transport id
    f = m.method('BaseManager', 'pre_disconnect')
    run = run_function(f, m)
    sid, ns = f.params[1:3]
    for p in run.paths:
        if not p.normal:
            continue
        app = [e for e in p.calls('append')
               if U(run.expand(e.expr.func.value)) in (
                   'self.pending_disconnect[%s]' % ns,
                   'self.pending_disconnect.setdefault(%s, [])' % ns) and
               U(e.expr.args[0]) == sid]
        ctx.check(bool(app), 'BaseManager.pre_disconnect',
                  'appends sid to pending_disconnect[namespace]',
                  key='mark-append', where=where(f))


def r7_refused(ctx):
    m = ctx.model
    f = m.method('ConnectionRefusedError', '__init__')
    construct = 'ConnectionRefusedError.__init__'
    if f.vararg is None:
        raise AnalysisError(construct + ' no longer takes *args')
    av = f.vararg
    # the variadic parameter is bound to a display of n opaque elements
    # (a0, a1, ...): length tests, indexes, slices and star-unpacking fold,
    # whatever else the function tests forks - and every path has to end in
    # the documented error_args
    for n in (0, 1, 2, 3, 4):
        elems = [ast.Name(id='a%d' % i, ctx=ast.Load()) for i in range(n)]
        env = {av: ast.Tuple(elts=elems, ctx=ast.Load())}
        run = run_function(f, ctx.model, params_env=env)
        if not 1 <= len(run.paths) <= 16:
            raise AnalysisError('%s: %d paths for len(args)=%d' % (
                construct, len(run.paths), n))
        rest = '(%s)' % ', '.join('a%d' % i for i in range(1, n))
        want = {}
        if n == 1:
            want = {'message': 'str(a0)'}
        elif n == 2:
            want = {'message': 'str(a0)', 'data': 'a1'}
        elif n >= 3:
            want = {'message': 'str(a0)', 'data': rest}
        for p in run.paths:
            d = {}
            for e in p.events:
                if e.kind != 'store':
                    continue
                t = U(e.expr)
                if t == 'self.error_args' and isinstance(e.extra, ast.Dict):
                    d = {k.value: U(run.expand(v))
                         for k, v in zip(e.extra.keys, e.extra.values)
                         if isinstance(k, ast.Constant)}
                elif t.startswith('self.error_args[') and \
                        isinstance(e.expr.slice, ast.Constant):
                    d[e.expr.slice.value] = U(run.expand(e.extra))
            d = {k: v.replace('[a', '(a').replace(']', ')')
                 if k == 'data' and v.startswith('[a') else v
                 for k, v in d.items()}
            if n == 0:
                ok = set(d) == {'message'} and \
                    d['message'].lstrip('str(').startswith(("'", '"'))
            else:
                ok = d == want and p.normal
            others = [('' if c.pol else 'not ') + U(run.expand(c.atom))[:40]
                      for c in p.conds]
            ctx.check(ok, construct, 'len(args)=%s -> %s' % (
                n, want or '{message: <constant>}'),
                key='row %d' % min(n, 3), reason='with %d argument(s) '
                'error_args is %s%s' % (
                    n, d, ' when ' + ' and '.join(others) if others else ''),
                where=where(f))


def r8_reason(ctx, fam):
    m = ctx.model
    S = SERVER[fam]
    f = m.method(S, 'disconnect')
    run = run_function(f, m)
    for p in run.paths:
        for T in trigger_calls(p, 'disconnect'):
            r = T.expr.args[3] if len(T.expr.args) > 3 else None
            ctx.check(txt(r) == 'self.reason.SERVER_DISCONNECT',
                      S + '.disconnect', 'reason is SERVER_DISCONNECT',
                      key='reason', reason='server-initiated disconnect '
                      'reports reason %s' % txt(r), where=where(f, T.node))
    f = m.method(S, '_handle_disconnect')
    rp = f.params[3] if len(f.params) > 3 else None
    run = run_function(f, m)
    for p in run.paths:
        for T in trigger_calls(p, 'disconnect'):
            r = run.expand(T.expr.args[3]) if len(T.expr.args) > 3 else None
            ctx.check(txt(r) in ('%s or self.reason.CLIENT_DISCONNECT' % rp,
                                 rp), S + '._handle_disconnect',
                      'reason is the caller\'s reason, defaulting to '
                      'CLIENT_DISCONNECT', key='reason',
                      reason='_handle_disconnect reports %s' % txt(r),
                      where=where(f, T.node))
    f = m.method(S, '_handle_eio_message')
    n = 0
    for c in m._walk_own(f.node):
        if isinstance(c, ast.Call) and isinstance(c.func, ast.Attribute) and \
                c.func.attr == '_handle_disconnect':
            n += 1
            r = c.args[2] if len(c.args) > 2 else None
            for k in c.keywords:
                if k.arg == 'reason':
                    r = k.value
            ctx.check(r is None or
                      txt(r) == 'self.reason.CLIENT_DISCONNECT',
                      S + '._handle_eio_message', 'a DISCONNECT packet '
                      'reports CLIENT_DISCONNECT', key='reason',
                      reason='DISCONNECT packet handled with reason %s'
                      % txt(r), where=where(f, c))
    if not n:
        ctx.bad(S + '._handle_eio_message', 'no-disconnect-arm',
                'DISCONNECT packets no longer reach _handle_disconnect',
                where(f))


def run(ctx):
    ctx.rule('C04.R12', 'exception identity: ConnectionRefusedError / '
             'ConnectionError named in the server modules are the package\'s '
             'classes (what the connect path catches), never the builtins of '
             'the same name', floor=0)
    from .common import exception_identity
    exception_identity(ctx, ('server', 'async_server', 'base_server',
                             'namespace', 'async_namespace'), 'C04.R12')
    ctx.rule('C04.R1', 'asyncio: no suspension point between the '
             'connected-test and the pre_disconnect mark', floor=2)
    ctx.rule('C04.R2', "'disconnect' trigger: gate -> mark -> handler -> "
             'release on the same (sid, namespace)', floor=8)
    for fam in SA:
        for fname in ('disconnect', '_handle_disconnect'):
            r1_r2_site(ctx, fam, fname)
    ctx.rule('C04.R3', "only disconnect() and _handle_disconnect() trigger "
             "'disconnect'", floor=4)
    for fam in SA:
        r3_ownership(ctx, fam)
    ctx.rule('C04.R4', '_handle_connect: admission only for served '
             'namespaces, None sid refused, CONNECT exactly once, refusal '
             'packet with the refusal data, membership released', floor=20)
    for fam in SA:
        r4_connect(ctx, fam)
    ctx.rule('C04.R9', 'a refusal raised by any invocation of the connect '
             'handler (legacy-signature retry included) is contained and '
             'handled as a refusal', floor=4)
    for fam in SA:
        r9_refusal_contained(ctx, fam)
    ctx.rule('C04.R5', 'transport loss ends every namespace', floor=2)
    for fam in SA:
        r5_eio_disconnect(ctx, fam)
    ctx.rule('C04.R6', 'pending means not connected; duplicate connect '
             'returns None; pre_disconnect marks', floor=5)
    r6_manager(ctx)
    ctx.rule('C04.R11', 'the request environment lives as long as the '
             'transport', floor=2)
    for fam in SA:
        r11_environ_lifetime(ctx, fam)
    ctx.rule('C04.R10', 'can_disconnect answers through is_connected',
             floor=4)
    r10_can_disconnect(ctx)
    ctx.rule('C04.R7', 'ConnectionRefusedError message/data table over '
             'len(args) in {0,1,2,3+}', floor=4)
    r7_refused(ctx)
    ctx.rule('C04.R8', 'the reported reason names a cause in progress',
             floor=6)
    for fam in SA:
        r8_reason(ctx, fam)
    ctx.rule('C03.R5', 'a disconnected sid is in no room: basic_disconnect '
             'leaves every room that contains it (shared rule)', floor=5)
    from .c03 import r5_lifecycle
    r5_lifecycle(ctx)
    ctx.assume('engine.io generate_id() returns fresh ids (sid freshness is '
               'NOT decided)')
    ctx.assume('asyncio: tasks interleave only at suspension points; an '
               'await of an in-package coroutine without suspending awaits '
               'does not yield')
    ctx.assume('threaded server: sequential executions only (races: C20)')
