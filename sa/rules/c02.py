"""C02 - end-to-end payload transparency: structure only.  Equality of
nested values across serializers and framings is NOT decided.

R1 emit packing table at the 4 emit sites over data in {None, tuple, list,
   bytes, dict, falsy scalar, truthy scalar}: payload = [event] + list(data)
   / [] / [data].
R2 dispatch unpacking: handlers receive data[0] as event and *data[1:].
R3 ack packing table (server and client): None -> [], tuple -> list(r),
   other -> [r].
R4 call() result table at 4 sites.
R5 callbacks receive *data.
R6 frame order: the encoder's frame list is iterated by a plain `for` in
   list order and every element is sent once.
R7 every outbound packet names its namespace (bound to the function's
   namespace or to the loop variable over the connection's namespaces);
   ACKs carry the incoming id.
R8 engine.io is built with async_handlers=False.
R9 msgpack schema: keys written by _to_dict cover the keys read by
   MsgPackPacket.decode; required keys are written unconditionally.
R10 swapped arguments: at every resolved in-package call no plain-name
   argument is bound to a different parameter that bears another
   parameter's name (positive control built in).
"""
import ast

from ..model import AnalysisError, FuncInfo
from ..known_names import KNOWN_NAMES
from ..sym import U, is_const, Run, run_function
from ..util import (bind_call, strip_await, where, SA, SERVER, CLIENT,
                    MANAGER, walk_own)
from .common import sends, packet_ctor, txt
from . import msgpath
from .c05 import internal_dispatch, r8_engineio_ordered
from .c06 import call_result
from .c09 import r7_dispatch

CLASSES = ['None', 'tuple', 'list', 'bytes', 'dict', 'falsy', 'truthy']


def data_oracle(cls):
    def oracle(atom, run, st):
        a = run.expand(atom)
        t = U(a)
        if t == 'data is None':
            return cls == 'None'
        if isinstance(a, ast.Call) and U(a.func) == 'isinstance' and \
                U(a.args[0]) == 'data':
            ty = a.args[1]
            names = [U(x) for x in (ty.elts if isinstance(ty, ast.Tuple)
                                    else [ty])]
            return cls in names
        if t == 'data':
            return {'None': False, 'falsy': False, 'truthy': True}.get(cls)
        if t in ('callback', 'callback is None',
                 'isinstance(skip_sid, list)', 'namespace in self.rooms',
                 "(namespace or '/') in self.namespaces",
                 'isinstance(self.server.packet_class(packet.EVENT, '
                 'namespace=namespace, data=[event] + data).encode(), list)'):
            return None
        return None
    return oracle


def r1_emit_packing(ctx, cname):
    m = ctx.model
    f = m.method(cname, 'emit')
    construct = cname + '.emit'
    w = where(f)
    for cls in CLASSES:
        run = run_function(f, ctx.model, oracle=data_oracle(cls), max_iter=1)
        seen = set()
        for p in run.paths:
            if not p.normal:
                continue
            for e in p.calls('packet_class'):
                pk = packet_ctor(run.expand(e.expr))
                if not pk or pk['type'] != 'EVENT':
                    continue
                d = pk.get('data')
                parts = []
                x = d
                ok = isinstance(x, ast.BinOp) and isinstance(x.op, ast.Add) \
                    and U(x.left) == '[event]'
                payload = U(x.right) if ok else None
                want = {'None': '[]', 'tuple': 'list(data)'}.get(
                    cls, '[data]')
                key = (cls, payload)
                if key in seen:
                    continue
                seen.add(key)
                ctx.check(ok and payload == want, construct,
                          '[data is %s] payload = [event] + %s' % (cls, want),
                          key='emit-packing ' + cls, reason='for data of '
                          'kind %s the EVENT payload is %s, required is '
                          '[event] + %s' % (cls, txt(d), want),
                          where=where(f, e.node), witness=cls)
        if not seen:
            ctx.bad(construct, 'no-event-packet ' + cls, 'emit builds no '
                    'EVENT packet for data of kind ' + cls, w)


def r6_frame_order(ctx):
    m = ctx.model
    n = 0
    for cname in ('Server', 'AsyncServer', 'Client', 'AsyncClient'):
        f = m.method(cname, '_send_packet')
        construct = cname + '._send_packet'
        pkt = f.params[-1]
        run = run_function(f, m, max_iter=2)
        listp = single = 0
        for p in run.paths:
            if not p.normal:
                continue
            isl = None
            for c in p.conds:
                if U(run.expand(c.atom)) == \
                        'isinstance(%s.encode(), list)' % pkt:
                    isl = c.pol
            snd = [e for e in p.calls('send') if e.recv() == 'self.eio']
            if isl is None:
                ctx.bad(construct, 'no-list-test', 'a path sends without '
                        'distinguishing single frame / frame list',
                        where(f))
                continue
            if isl:
                listp += 1
                its = [e for e in p.events if e.kind == 'iter']
                ok = len(its) == 1 and \
                    U(run.expand(its[0].expr)) == pkt + '.encode()'
                for s in snd:
                    d = run.sym_of(s.expr.args[-1])
                    ok = ok and d is not None and d['kind'] == 'loopvar'
                iters = {run.symdefs[s.expr.args[-1].id].get('iteration')
                         for s in snd if isinstance(s.expr.args[-1],
                                                    ast.Name) and
                         s.expr.args[-1].id in run.symdefs}
                ok = ok and len(iters) == len(snd)
                ctx.check(ok, construct, 'frame list iterated by a plain '
                          'for over encode(), each frame sent once, in '
                          'order', key='frame-order', reason='frames are '
                          'iterated as %s; %d sends' % ([
                              U(run.expand(i.expr)) for i in its], len(snd)),
                          where=where(f))
                n += 1
            else:
                its = [e for e in p.events if e.kind == 'iter']
                if its and not snd:
                    continue     # zero-iteration path of a frame loop
                single += 1

                def one(arg):
                    if U(run.expand(arg)) == pkt + '.encode()':
                        return True
                    d = run.sym_of(arg)
                    # the single frame wrapped into a one-element list and
                    # sent by the same loop as a frame list
                    return d is not None and d['kind'] == 'loopvar' and \
                        U(run.expand(d['expr'])) == '[%s.encode()]' % pkt
                ok1 = bool(snd) and all(one(x.expr.args[-1]) for x in snd) \
                    and (len(snd) == 1 or bool(its))
                ctx.check(ok1, construct,
                    'single frame sent once', key='single-frame',
                    where=where(f))
        if not listp or not single:
            ctx.bad(construct, 'paths', 'missing list/single branch',
                    where(f))
        enc = [c for c in walk_own(f.node) if isinstance(c, ast.Call) and
               U(c.func) == pkt + '.encode']
        ctx.check(len(enc) == 1, construct, 'the packet is encoded once',
                  key='encode-once', where=where(f))
    for cname in ('Manager', 'AsyncManager'):
        f = m.method(cname, 'emit')
        construct = cname + '.emit'
        comps = [c for c in walk_own(f.node) if isinstance(c, ast.ListComp)
                 and 'eio_packet.Packet' in U(c.elt)]
        ok = len(comps) == 1 and U(comps[0].generators[0].iter) == \
            'encoded_packet' and not comps[0].generators[0].ifs and \
            U(comps[0].elt.args[1]) == U(comps[0].generators[0].target)
        ctx.check(ok, construct, 'pre-encoded frames are wrapped in list '
                  'order', key='pre-encode-order', where=where(f))
        loops = [l for l in walk_own(f.node) if isinstance(l, ast.For) and
                 U(l.iter) == 'eio_pkt']
        ok = len(loops) == 1 and any(
            isinstance(c, ast.Call) and
            U(c.func).endswith('_send_eio_packet') and
            U(c.args[1]) == U(loops[0].target)
            for c in ast.walk(loops[0]))
        ctx.check(ok, construct, 'every pre-encoded frame is sent, in list '
                  'order', key='pre-encode-send', where=where(f))
        n += 1
    for node_cls in ('Manager', 'AsyncManager', 'Server', 'AsyncServer',
                     'Client', 'AsyncClient'):
        c = m.cls(node_cls)
        for f in c.methods.values():
            for x in walk_own(f.node):
                if isinstance(x, ast.Call) and U(x.func) in (
                        'reversed', 'sorted', 'set') and any(
                        'encoded_packet' in U(a) or 'eio_pkt' in U(a)
                        for a in x.args):
                    ctx.bad('%s.%s' % (node_cls, f.name), 'reorder',
                            'frames are reordered by %s' % U(x)[:40],
                            where(f, x))


SENDER_CLASSES = ['Server', 'AsyncServer', 'Client', 'AsyncClient',
                  'Manager', 'AsyncManager']


def r7_namespaces(ctx):
    m = ctx.model
    n = 0
    for cname in SENDER_CLASSES:
        c = m.cls(cname)
        for f in c.methods.values():
            for x in walk_own(f.node):
                if not (isinstance(x, ast.Call) and
                        isinstance(x.func, ast.Attribute) and
                        x.func.attr == 'packet_class'):
                    continue
                pk = packet_ctor(x)
                if pk is None or 'encoded_packet' in pk:
                    continue
                n += 1
                ns = pk.get('namespace')
                loopvars = set()
                for l in walk_own(f.node):
                    if isinstance(l, (ast.For, ast.AsyncFor)) and \
                            U(l.iter) in ('self.namespaces',
                                          'self.connection_namespaces') and \
                            x in list(ast.walk(l)):
                        loopvars.add(U(l.target))
                good = ns is not None and (
                    (U(ns) == 'namespace' and 'namespace' in f.params) or
                    U(ns) in loopvars)
                ctx.check(good, '%s.%s' % (cname, f.name), '%s packet names '
                          'its namespace' % pk['type'], key='pkt-namespace',
                          reason='a %s packet is built with namespace=%s: '
                          'it would travel on the default namespace'
                          % (pk['type'], txt(ns)), where=where(f, x))
                if pk['type'] == 'ACK':
                    # the id is a parameter handed in unchanged (never
                    # reassigned in the function), distinct from the
                    # namespace
                    idv = txt(pk.get('id'))
                    reassigned = any(
                        isinstance(s, (ast.Assign, ast.AugAssign)) and any(
                            isinstance(t, ast.Name) and t.id == idv
                            for t in ast.walk(s.targets[0] if isinstance(
                                s, ast.Assign) else s.target))
                        for s in walk_own(f.node))
                    ctx.check(idv in f.params and idv != U(ns) and
                              not reassigned, '%s.%s' % (cname, f.name),
                              'ACK carries the incoming id', key='ack-id',
                              where=where(f, x))
                if cname in ('Server', 'AsyncServer', 'Client',
                             'AsyncClient') and U(ns) == 'namespace':
                    # the namespace value is normalised in the function
                    def normalises(g):
                        return any(isinstance(s, ast.Assign) and
                                   U(s.targets[0]) == 'namespace' and
                                   U(s.value) == "namespace or '/'"
                                   for s in walk_own(g.node))
                    norm = normalises(f)
                    if not norm and f.name not in KNOWN_NAMES:
                        # a helper introduced later: every caller hands it
                        # its own, normalised, namespace
                        sites = []
                        for g in c.methods.values():
                            for y in walk_own(g.node):
                                if isinstance(y, ast.Call) and \
                                        isinstance(y.func, ast.Attribute) \
                                        and y.func.attr == f.name and \
                                        U(y.func.value) == 'self':
                                    b = bind_call(y, f)
                                    sites.append(
                                        normalises(g) and
                                        U(b.get('namespace')) == 'namespace')
                        norm = bool(sites) and all(sites)
                    if f.name not in ('_handle_event_internal',):
                        ctx.check(norm, '%s.%s' % (cname, f.name),
                                  "namespace normalised with `or '/'`",
                                  key='ns-normalised', where=where(f, x))
    if n < 24:
        raise AnalysisError('C02.R7 found only %d packet construction '
                            'sites (26 confirmed by hand)' % n)
    ctx.extra['packet_sites'] = n


def r12_no_value_limit(ctx):
    """what one side may send the other side accepts: the encoder puts no
    limit on the number of attachments (or on the id), so the decoder must
    not reject a frame because of the VALUE of a number it has read (the
    existing guards bound the number of DIGITS, which no payload the encoder
    produces comes near)."""
    m = ctx.model
    f = m.own_method('Packet', 'decode')
    from ..sym import with_new_helpers
    n = 0
    for g in with_new_helpers(m, f):
        ints = set()
        for x in walk_own(g.node):
            if isinstance(x, ast.Assign) and isinstance(x.value, ast.Call) \
                    and U(x.value.func) == 'int':
                for t in x.targets:
                    ints.add(U(t))
        for x in walk_own(g.node):
            if not isinstance(x, ast.If):
                continue
            raises = any(isinstance(y, ast.Raise) for b in x.body
                         for y in ast.walk(b))
            if not raises:
                continue
            n += 1
            bad = [c for c in ast.walk(x.test) if isinstance(c, ast.Compare)
                   and isinstance(c.ops[0], (ast.Gt, ast.GtE, ast.Lt,
                                             ast.LtE)) and (
                       (U(c.left) in ints and isinstance(
                           c.comparators[0], ast.Constant)) or
                       (U(c.comparators[0]) in ints and isinstance(
                           c.left, ast.Constant)))]
            ctx.check(not bad, 'Packet.' + g.name, 'the rejecting test `%s` '
                      'does not bound the value of a decoded number'
                      % U(x.test)[:50], key='value-limit',
                      reason='decode rejects a frame when %s: a payload the '
                      'encoder is free to produce (more attachments than '
                      'that) is refused by the receiver, and its attachment '
                      'frames are then parsed as packets' % (
                          U(bad[0]) if bad else ''), where=where(g, x))
    if n < 3:
        raise AnalysisError('Packet.decode: only %d rejecting tests found'
                            % n)


def r9_msgpack(ctx):
    m = ctx.model
    td = m.own_method('Packet', '_to_dict')
    dec = m.own_method('MsgPackPacket', 'decode')
    run = run_function(td, m)
    always = None
    sometimes = set()
    for p in run.paths:
        keys = set()
        for e in p.events:
            if e.kind == 'store' and isinstance(e.expr, ast.Subscript) and \
                    isinstance(e.expr.slice, ast.Constant):
                keys.add(e.expr.slice.value)
        v = run.expand(p.value) if p.value is not None else None
        if isinstance(v, ast.Dict):
            keys |= {k.value for k in v.keys if isinstance(k, ast.Constant)}
        always = keys if always is None else always & keys
        sometimes |= keys
    # a field may be left out only when it IS None (the decoder's default):
    # a truthiness test also drops [], 0, '' and b'' - an acknowledgement
    # without arguments would arrive as None
    for p in run.paths:
        for c in p.conds:
            a = run.expand(c.atom)
            isnone = isinstance(a, ast.Compare) and \
                isinstance(a.ops[0], ast.Is) and \
                is_const(a.comparators[0], None)
            ctx.check(isnone, 'Packet._to_dict', 'optional fields are left '
                      'out only under an `is None` test', key='msgpack-'
                      'truthiness', reason='_to_dict decides on `%s`: a '
                      'falsy but meaningful value (an empty argument list, '
                      '0) is dropped from the message and decoded as None'
                      % U(a)[:40], where=where(td))
    req, opt = set(), set()
    # the local holding the unpacked message: assigned from a call and
    # read with constant string keys
    cand = [U(n.targets[0]) for n in walk_own(dec.node)
            if isinstance(n, ast.Assign) and isinstance(n.value, ast.Call)
            and isinstance(n.targets[0], ast.Name)]
    loc = [c for c in cand if any(
        isinstance(n, ast.Subscript) and U(n.value) == c and
        isinstance(n.slice, ast.Constant) and isinstance(n.slice.value, str)
        for n in walk_own(dec.node))]
    if not loc:
        raise AnalysisError('MsgPackPacket.decode: the unpacked dict is not '
                            'bound to a local')
    dn = loc[0]
    for n in walk_own(dec.node):
        if isinstance(n, ast.Subscript) and U(n.value) == dn and \
                isinstance(n.slice, ast.Constant):
            req.add(n.slice.value)
        if isinstance(n, ast.Call) and U(n.func) == dn + '.get' and \
                isinstance(n.args[0], ast.Constant):
            opt.add(n.args[0].value)
    ctx.check(req <= (always or set()), 'MsgPackPacket.decode',
              'required keys %s are written unconditionally by _to_dict'
              % sorted(req), key='msgpack-required', reason='decode '
              'requires %s, _to_dict always writes %s' % (
                  sorted(req), sorted(always or [])), where=where(dec))
    ctx.check((req | opt) == sometimes, 'MsgPackPacket.decode',
              'keys read %s == keys written %s' % (sorted(req | opt),
                                                   sorted(sometimes)),
              key='msgpack-keys', reason='decode reads %s, _to_dict writes '
              '%s' % (sorted(req | opt), sorted(sometimes)),
              where=where(dec))
    # field mapping
    want = {'type': 'self.packet_type', 'data': 'self.data',
            'nsp': 'self.namespace', 'id': 'self.id'}
    got = {}
    for n in walk_own(td.node):
        if isinstance(n, ast.Dict):
            for k, v in zip(n.keys, n.values):
                got[k.value] = U(v)
        if isinstance(n, ast.Assign) and \
                isinstance(n.targets[0], ast.Subscript):
            got[n.targets[0].slice.value] = U(n.value)
    ctx.check(got == want, 'Packet._to_dict', 'fields map to '
              'type/data/nsp/id', key='msgpack-map', where=where(td))
    back = {}
    for n in walk_own(dec.node):
        if isinstance(n, ast.Assign) and \
                isinstance(n.targets[0], ast.Attribute):
            v = n.value
            k = v.slice.value if isinstance(v, ast.Subscript) else \
                v.args[0].value if isinstance(v, ast.Call) else None
            back[k] = U(n.targets[0])
    ctx.check(back == {k: v for k, v in want.items()},
              'MsgPackPacket.decode', 'decode assigns each key back to the '
              'attribute it was written from', key='msgpack-back',
              reason='decode maps %s' % back, where=where(dec))
    ub = m.cls('MsgPackPacket').class_attrs.get('uses_binary_events')
    ctx.check(ub is not None and is_const(ub, False), 'MsgPackPacket',
              'single-frame encoding: uses_binary_events is False',
              key='msgpack-binary', where='src/socketio/msgpack_packet.py')


# name-identical arguments that are deliberately bound to another parameter
SWAP_EXCEPTIONS = {
    ('base_manager.BaseManager.connect', 'basic_enter_room', 'room', 'sid'):
        'the personal room of a client is named after its sid',
}

CONTROL_SWAP = '''
class Manager:
    def leave_room(self, sid, namespace, room):
        pass
    def f(self, sid, namespace, room):
        self.leave_room(sid, room, namespace)
'''


def swapped_in_call(call, target, skip_self=None, offset=0):
    b = bind_call(call, target, skip_self=skip_self, offset=offset)
    params = set(target.params) | set(target.kwonly)
    out = []
    for p, a in b.args.items():
        if isinstance(a, ast.Name) and a.id != p and a.id in params and \
                a.id not in ('self', 'cls'):
            out.append((p, a.id))
    return out


def r10_swapped(ctx):
    m = ctx.model
    # positive control
    tree = ast.parse(CONTROL_SWAP)
    cls = tree.body[0]
    fake = FuncInfo(type('M', (), {'name': 'ctl', 'relpath': 'ctl'})(),
                    None, cls.body[0])
    call = cls.body[1].body[0].value
    if not swapped_in_call(call, fake, skip_self=True):
        raise AnalysisError('C02.R10 positive control not flagged')
    n = 0
    for f in m.funcs:
        for node in walk_own(f.node):
            if not isinstance(node, ast.Call):
                continue
            targets = []
            kind, tg = m.resolve_call(f, node)
            if kind == 'internal':
                targets = [(t, node, None) for t in tg]
            fn = U(node.func)
            if fn.endswith('start_background_task') or fn == 'partial':
                a0 = node.args[0] if node.args else None
                if isinstance(a0, ast.Attribute):
                    cl = m.receiver_classes(f, a0.value)
                    for k in cl or []:
                        t = m.lookup(k, a0.attr)
                        if t is not None:
                            sub = ast.Call(func=a0, args=node.args[1:],
                                           keywords=node.keywords)
                            targets.append((t, sub, None))
            seen_t = set()
            for t, call, _ in targets:
                if t in seen_t:
                    continue
                seen_t.add(t)
                n += 1
                for p, a in swapped_in_call(call, t):
                    key = (f.qualname, t.name, p, a)
                    if key in SWAP_EXCEPTIONS:
                        ctx.info('%s passes %s as %s of %s: %s' % (
                            f.qualname, a, p, t.name, SWAP_EXCEPTIONS[key]))
                        continue
                    ctx.bad(f.qualname, 'swapped %s<-%s in %s' % (p, a,
                                                                  t.name),
                            'argument `%s` is bound to parameter `%s` of '
                            '%s, which also has a parameter named `%s`: '
                            'arguments swapped' % (a, p, t.qualname, a),
                            where(f, node))
    ctx.ok('package', '%d resolved in-package call bindings examined, none '
           'binds a parameter-named argument to a different parameter' % n,
           'src/socketio')
    ctx.extra['bindings_examined'] = n
    if n < 300:
        raise AnalysisError('C02.R10 examined only %d call bindings' % n)


def run(ctx):
    ctx.rule('C02.R1', 'emit packing table: 4 sites x 7 kinds of data',
             floor=28)
    for cname in ('Client', 'AsyncClient', 'Manager', 'AsyncManager'):
        r1_emit_packing(ctx, cname)
    ctx.rule('C05.R6', 'server dispatch unpacking (shared rule)', floor=2)
    for fam in SA:
        internal_dispatch(ctx, fam)
    ctx.rule('C09.R7', 'client dispatch unpacking (shared rule)', floor=2)
    for fam in SA:
        r7_dispatch(ctx, fam)
    ctx.rule('C02.R3', 'ack packing table at 4 sites', floor=8)
    ctx.rule('C05.R5', 'server ACK rows (shared rule)', floor=10)
    ctx.rule('C09.R2', 'client ACK rows (shared rule)', floor=10)
    for fam in SA:
        msgpath.server_ack(ctx, fam, 'C05.R5', 'C02.R3')
        msgpath.client_ack(ctx, fam, 'C09.R2', 'C02.R3')
    ctx.rule('C06.R5', 'ack ids come from one counter per client / '
             'namespace, so a result reaches the callback it was requested '
             'for (shared rule)', floor=8)
    msgpath.counter_discipline(ctx, 'BaseManager', 'sid', 'C06.R5')
    msgpath.counter_discipline(ctx, 'BaseClient', 'namespace', 'C06.R5')
    ctx.rule('C02.R4', 'call() result table at 4 sites', floor=28)
    for cname in ('Server', 'AsyncServer', 'Client', 'AsyncClient'):
        call_result(ctx, cname, 'C02.R4')
    ctx.rule('C02.R5', 'callbacks receive *data', floor=8)
    for fam in SA:
        msgpath.callback_typestate(ctx, MANAGER[fam], 'trigger_callback',
                                   ('sid', 'id'), 'C02.R5')
        msgpath.callback_typestate(ctx, CLIENT[fam], '_handle_ack',
                                   ("namespace or '/'", 'id'), 'C02.R5')
    ctx.rule('C05.R7', 'attachments reach the pending packet; the buffer '
             'entry is cleared before the completed packet is dispatched, so '
             'a failing handler cannot wedge the receiver (shared rule, '
             'server and client)', floor=30)
    for cname, srv in (('Server', True), ('AsyncServer', True),
                       ('Client', False), ('AsyncClient', False)):
        msgpath.reassembly(ctx, cname, srv)
    ctx.rule('C02.R6', 'frame order: plain iteration over the encoder\'s '
             'list, each frame sent once', floor=10)
    r6_frame_order(ctx)
    ctx.rule('C02.R7', 'every outbound packet names its namespace; ACKs '
             'carry the incoming id', floor=24)
    r7_namespaces(ctx)
    ctx.rule('C05.R8', 'engine.io built with async_handlers=False (shared '
             'rule)', floor=1)
    r8_engineio_ordered(ctx)
    ctx.rule('C02.R13', 'every frame of an encoded packet is handed to the '
             'transport, in order, by all four _send_packet', floor=8)
    for cname in ('Server', 'AsyncServer', 'Client', 'AsyncClient'):
        msgpath.send_frames(ctx, cname, 'C02.R13')
    ctx.rule('C02.R12', 'the decoder rejects no frame because of the value '
             'of a decoded number (encoder and decoder agree on what may be '
             'sent)', floor=3)
    r12_no_value_limit(ctx)
    ctx.rule('C02.R9', 'msgpack schema agreement', floor=5)
    r9_msgpack(ctx)
    ctx.rule('C02.R11', 'encoding is non-destructive: the codec never '
             'modifies the payload object it is given', floor=6)
    from .c01 import r2b_non_destructive
    r2b_non_destructive(ctx, rid='C02.R11')
    ctx.rule('C01.R3', 'every bytes leaf travels as its own attachment: one '
             'append per leaf, the placeholder numbered by the appends made '
             'so far, and the decoder indexes by that number - otherwise a '
             'payload with equal or repeated blobs does not arrive as sent '
             '(shared rule)', floor=5)
    from .c01 import r3_placeholder
    r3_placeholder(ctx)
    ctx.rule('C02.R10', 'no swapped arguments at resolved in-package calls',
             floor=1)
    r10_swapped(ctx)
    ctx.assume('value fidelity through json / msgpack and the transport '
               'framing is NOT decided')
    ctx.assume('engine.io delivers frames of one connection in order')
