"""C19 - SimpleClient: events are received once each, in arrival order.
The interleavings are NOT explored; the ordering discipline that makes the
hand-off correct is decided.

R1 publish then signal: the catch-all handler appends before it sets the
   input event.
R2 clear then re-check: in receive(), after every clear of the input event
   the buffer is tested before the next wait; no wait happens without a
   buffer test since the last clear; the returned event is popped only
   after the buffer tested non-empty.
R3 FIFO: producer appends [event, *args], consumer pops index 0.
R4 no other writer of the buffer than the handler, receive() and the reset
   in connect().
R5 drain before failing: DisconnectedError / TimeoutError in receive() are
   raised only with the buffer empty.
R6 emit/call: each attempt is preceded by the connected-event wait and the
   `connected` test; not connected => DisconnectedError; SocketIOError loops.
R7 the event handlers are registered on the client's own namespace and the
   underlying connect() asks for that namespace only.
R8 connected flag / connected event state machine: the `connect` handler
   raises the flag and then sets the event; the `disconnect` handler
   (transient loss, a reconnection may follow) clears the event and leaves
   the flag alone; the `__disconnect_final` handler lowers the flag and then
   sets the event; nobody else lowers the flag except the constructor and
   disconnect().  (`connected` false is what emit/call/receive read as
   "ended for good".)
"""
import ast

from ..model import AnalysisError
from ..sym import U, is_const, Run, run_function
from ..util import bind_call, strip_await, where, SA, CLIENT, walk_own
from .common import txt

SIMPLE = {'sync': 'SimpleClient', 'async': 'AsyncSimpleClient'}
BUF = 'self.input_buffer'
IEV = 'self.input_event'
CEV = 'self.connected_event'


def r1_r3_handler(ctx, fam):
    m = ctx.model
    S = SIMPLE[fam]
    conn = m.method(S, 'connect')
    # the catch-all handler: nested def decorated with client.on('*', ...)
    h = None
    for name, f in conn.nested.items():
        for d in getattr(f.node, 'decorator_list', []):
            if isinstance(d, ast.Call) and U(d.func).endswith('.on') and \
                    d.args and is_const(d.args[0], '*'):
                h = f
    if h is None:
        raise AnalysisError('%s.connect: catch-all handler not found' % S)
    construct = '%s.connect.%s' % (S, h.name)
    run = run_function(h, m)
    for p in run.paths:
        if not p.normal:
            continue
        app = [e for e in p.calls('append') if e.recv() == BUF]
        st = [e for e in p.calls('set') if e.recv() == IEV]
        ctx.check(len(app) == 1 and len(st) == 1 and app[0].idx < st[0].idx,
                  construct, 'append to the buffer, then set the input '
                  'event', key='publish-then-signal', reason='handler '
                  'appends %d time(s), signals %d time(s), order %s' % (
                      len(app), len(st), 'signal first' if app and st and
                      app[0].idx > st[0].idx else 'ok'), where=where(h),
                  rid='C19.R1')
        if app:
            a = app[0].expr.args[0]
            good = isinstance(a, ast.List) and len(a.elts) == 2 and \
                U(a.elts[0]) == h.params[0] and \
                isinstance(a.elts[1], ast.Starred) and \
                U(a.elts[1].value) == h.vararg
            ctx.check(good, construct, 'the buffered item is [event, '
                      '*args]', key='item-shape', reason='buffers %s' % U(a),
                      where=where(h), rid='C19.R3')
            ins = [e for e in p.calls('insert') if e.recv() == BUF]
            ctx.check(not ins, construct, 'producer only appends',
                      key='producer-append', where=where(h), rid='C19.R3')


def is_buf_test(run, c):
    return U(run.expand(c.atom)) in (BUF, 'len(%s)' % BUF) or \
        U(run.expand(c.atom)) in ('0 < len(%s)' % BUF, 'len(%s) == 0' % BUF)


def buf_empty(run, c):
    t = U(run.expand(c.atom))
    if t in (BUF, 'len(%s)' % BUF, '0 < len(%s)' % BUF):
        return not c.pol
    if t == 'len(%s) == 0' % BUF:
        return c.pol
    return None


def r2_r5_receive(ctx, fam):
    m = ctx.model
    S = SIMPLE[fam]
    f = m.method(S, 'receive')
    construct = S + '.receive'
    w = where(f)

    def raiser(e):
        if e.callee() == 'wait_for':
            return {'TimeoutError'}
        return None
    run = run_function(f, m, raiser=raiser,
                       loop_iters={n.lineno: 3 for n in walk_own(f.node)
                                   if isinstance(n, ast.While)},
                       max_paths=400000)
    n_ret = n_waits = 0
    for p in run.paths:
        # positions of interest
        waits = [e for e in p.events if e.kind == 'call' and
                 e.callee() == 'wait' and e.recv() == IEV]
        clears = [e for e in p.calls('clear') if e.recv() == IEV]
        tests = [c for c in p.conds if buf_empty(run, c) is not None]
        for i, wt in enumerate(waits):
            n_waits += 1
            lo = max([c.idx for c in clears if c.idx < wt.idx] + [-1])
            # a buffer test since the last clear (or since entry) that found
            # it empty
            t = [c for c in tests if lo < c.at <= wt.idx and
                 buf_empty(run, c)]
            ctx.check(bool(t), construct, 'no wait on the input event '
                      'without having found the buffer empty since the last '
                      'clear', key='clear-then-recheck',
                      reason='receive() can wait for the input event '
                      'without re-testing the buffer after clearing the '
                      'event: an event that arrived in between is held '
                      'back', where=where(f, wt.node), rid='C19.R2')
        # every wake-up is consumed: a successful wait on the input event is
        # followed by its clear before the next wait / before returning,
        # otherwise the next receive() no longer blocks (nor times out)
        for i, wt in enumerate(waits):
            failed_here = any(
                e.kind == 'caught' and e.extra is not None and
                e.extra.origin is not None and e.extra.origin.idx >= wt.idx
                and (i + 1 >= len(waits) or
                     e.extra.origin.idx < waits[i + 1].idx)
                for e in p.events) or any(
                not c.pol and c.at >= wt.idx and 'wait(' in U(run.expand(
                    c.atom)) and (i + 1 >= len(waits) or
                                  c.at < waits[i + 1].idx)
                for c in p.conds)
            if failed_here or p.exit in ('raise', 'exc', 'cut'):
                continue
            hi = waits[i + 1].idx if i + 1 < len(waits) else len(p.events)
            cl = [c for c in clears if wt.idx < c.idx <= hi]
            ctx.check(bool(cl), construct, 'a successful wait on the input '
                      'event is consumed (cleared) before the next wait or '
                      'the return', key='wake-consumed',
                      reason='the input event stays set after receive() was '
                      'woken: the next receive() with an empty buffer does '
                      'not block and never times out', where=where(f, wt.node),
                      rid='C19.R2')
        # the connection is given the chance to come back: the connected
        # flag is tested only after a wait on the connected event
        for c in p.conds:
            if U(run.expand(c.atom)) == 'self.connected':
                cw = [e for e in p.events[:c.at] if e.kind == 'call' and
                      e.callee() == 'wait' and e.recv() == CEV]
                ctx.check(bool(cw), construct, 'the connected flag is read '
                          'after waiting on the connected event',
                          key='flag-after-wait', reason='receive() reads '
                          '`connected` without having waited for the '
                          'connected event: during a reconnection it fails '
                          'with DisconnectedError instead of waiting it out',
                          where=w, rid='C19.R5')
                break
        # clear comes after the wait it acknowledges
        for c in clears:
            prior = [x for x in waits if x.idx < c.idx]
            ctx.check(bool(prior), construct, 'the event is cleared only '
                      'after a wait on it returned', key='clear-after-wait',
                      where=where(f, c.node), rid='C19.R2')
        if p.exit == 'return':
            n_ret += 1
            pops = [e for e in p.calls('pop') if e.recv() == BUF]
            good = len(pops) == 1 and len(pops[0].expr.args) == 1 and \
                is_const(pops[0].expr.args[0], 0) and \
                U(run.expand(p.value)) == U(run.expand(pops[0].expr))
            ctx.check(good, construct, 'returns buffer.pop(0)',
                      key='fifo-pop', reason='receive() returns %s'
                      % txt(run.expand(p.value)), where=w, rid='C19.R3')
            if pops:
                t = [c for c in tests if c.at <= pops[0].idx]
                ctx.check(bool(t) and buf_empty(run, t[-1]) is False,
                          construct, 'pops only after the buffer tested '
                          'non-empty', key='pop-guard', where=w,
                          rid='C19.R2')
        if p.exit == 'raise':
            t = [c for c in tests]
            last = t[-1] if t else None
            name = 'DisconnectedError' if 'DisconnectedError' in U(p.value) \
                else 'TimeoutError' if 'TimeoutError' in U(p.value) else None
            if name:
                ctx.check(last is not None and buf_empty(run, last),
                          construct, '%s only with the buffer empty' % name,
                          key='drain-first ' + name,
                          reason='%s can be raised while events are still '
                          'buffered' % name, where=w, rid='C19.R5')
            if name == 'DisconnectedError':
                # the emptiness test must be newer than the last wait: an
                # event can arrive (followed by the final disconnect) while
                # receive() is blocked in a wait
                allw = [e for e in p.events if e.kind == 'call' and
                        e.callee() == 'wait' and e.recv() in (IEV, CEV)]
                lw = allw[-1].idx if allw else -1
                fresh = [c for c in tests if c.at > lw and
                         buf_empty(run, c)]
                ctx.check(bool(fresh), construct, 'DisconnectedError is '
                          'raised only after the buffer was found empty '
                          '*after* the last wait', key='drain-after-wait',
                          reason='an event that arrives while receive() '
                          'waits (then the connection ends for good) is '
                          'held back: DisconnectedError is raised without '
                          're-testing the buffer after the wait at line %d'
                          % (allw[-1].lineno if allw else 0), where=w,
                          rid='C19.R5')
            if name == 'DisconnectedError':
                g = [c for c in p.conds if not c.pol and
                     U(run.expand(c.atom)) == 'self.connected']
                ctx.check(bool(g), construct, 'DisconnectedError only when '
                          'not connected', key='disc-guard', where=w,
                          rid='C19.R5')
            if name == 'TimeoutError':
                failed = any(e.kind == 'caught' for e in p.events) or any(
                    not c.pol and 'wait(' in U(run.expand(c.atom))
                    for c in p.conds)
                ctx.check(failed, construct, 'TimeoutError only after a '
                          'timed wait failed', key='timeout-guard', where=w,
                          rid='C19.R5')
    if not n_ret or not n_waits:
        ctx.bad(construct, 'paths', 'receive() has no returning or no '
                'waiting path', w, rid='C19.R2')


def r4_writers(ctx, fam):
    m = ctx.model
    S = SIMPLE[fam]
    cls = m.cls(S)
    allowed = {'__init__': 'initial', 'connect': 'reset on connect',
               'receive': 'consumer'}
    n = 0
    for f in m.funcs:
        owner = f
        while owner.cls is None and owner.parent is not None:
            owner = owner.parent
        if owner.cls is not cls:
            continue
        for node in walk_own(f.node):
            w = None
            if isinstance(node, (ast.Assign, ast.AugAssign, ast.Delete)):
                tg = node.targets if not isinstance(node, ast.AugAssign) \
                    else [node.target]
                for t in tg:
                    if BUF in U(t):
                        w = 'assigns'
            if isinstance(node, ast.Call) and \
                    isinstance(node.func, ast.Attribute) and \
                    U(node.func.value) == BUF and node.func.attr in (
                        'append', 'pop', 'insert', 'clear', 'extend',
                        'remove', 'sort', 'reverse'):
                w = node.func.attr
            if w is None:
                continue
            n += 1
            top = owner.name if f is owner else owner.name + '.' + f.name
            is_handler = f is not owner and w == 'append'
            ctx.check(owner.name in allowed and (f is owner or is_handler),
                      '%s.%s' % (S, top), 'buffer writer is the handler, '
                      'receive() or the reset in connect()/__init__',
                      key='foreign-writer', reason='%s %s the input buffer'
                      % (top, w), where=where(f, node))
    if n < 4:
        raise AnalysisError('C19.R4 found only %d buffer writers' % n)


def r6_emit_call(ctx, fam):
    m = ctx.model
    S = SIMPLE[fam]
    for name in ('emit', 'call'):
        f = m.method(S, name)
        construct = '%s.%s' % (S, name)

        def raiser(e, name=name):
            if e.callee() == name and e.recv() == 'self.client':
                return {'SocketIOError'}
            return None
        run = run_function(f, m, raiser=raiser,
                           loop_iters={n.lineno: 2
                                       for n in walk_own(f.node)
                                       if isinstance(n, ast.While)})
        n_att = n_disc = 0
        for p in run.paths:
            atts = [e for e in p.calls(name) if e.recv() == 'self.client']
            waits = [e for e in p.calls('wait') if e.recv() == CEV]
            for i, a in enumerate(atts):
                n_att += 1
                prev = atts[i - 1].idx if i else -1
                w = [x for x in waits if prev < x.idx < a.idx]
                g = [c for c in p.conds if prev < c.at <= a.idx and c.pol and
                     U(run.expand(c.atom)) == 'self.connected']
                ctx.check(bool(w) and bool(g) and g[-1].at > w[-1].idx,
                          construct, 'attempt preceded by '
                          'connected_event.wait() and a true `connected` '
                          'test', key='gate', reason='an attempt is made '
                          'without waiting out a reconnection / testing '
                          'connected', where=where(f, a.node))
                b = {k.arg: U(k.value) for k in a.expr.keywords}
                ctx.check(b.get('namespace') == 'self.namespace', construct,
                          'sent on the client\'s own namespace',
                          key='namespace', where=where(f, a.node))
            if p.exit == 'raise' and 'DisconnectedError' in U(p.value):
                n_disc += 1
                g = [c for c in p.conds if not c.pol and
                     U(run.expand(c.atom)) == 'self.connected']
                ctx.check(bool(g), construct, 'DisconnectedError only when '
                          'not connected', key='disc', where=where(f))
            if p.exit == 'exc':
                ctx.bad(construct, 'socketio-error-escapes', 'a '
                        'SocketIOError of the attempt leaves the retry '
                        'loop', where(f))
            if p.exit == 'return':
                ctx.check(bool(atts) and U(strip_await(run.expand(p.value)))
                          == U(run.expand(atts[-1].expr)), construct,
                          'returns the result of the successful attempt',
                          key='result', where=where(f))
        if not n_att or not n_disc:
            ctx.bad(construct, 'paths', 'no attempt or no DisconnectedError '
                    'path', where(f))


def r7_registration(ctx, fam):
    m = ctx.model
    S = SIMPLE[fam]
    f = m.method(S, 'connect')
    construct = S + '.connect'
    run = run_function(f, m)
    for p in run.paths:
        if not p.normal:
            continue
        regs = [e for e in p.events if e.kind == 'call' and
                e.callee() in ('event', 'on') and
                U(e.expr.func.value) == 'self.client']
        ctx.check(len(regs) == 4 and all(
            {k.arg: U(k.value) for k in e.expr.keywords}.get('namespace')
            == 'self.namespace' for e in regs), construct,
            'the four handlers are registered on the client\'s namespace',
            key='registration', where=where(f))
        st = [e for e in p.events if e.kind == 'store' and
              U(e.expr) == 'self.namespace']
        cc = [e for e in p.calls('connect') if e.recv() == 'self.client']
        ok = len(cc) == 1 and st and U(st[0].extra) == 'namespace'
        if ok:
            kws = {k.arg: U(k.value) for k in cc[0].expr.keywords}
            ok = kws.get('namespaces') == '[namespace]'
        ctx.check(ok, construct, 'connects the underlying client to exactly '
                  'this namespace', key='connect-ns', where=where(f))
        rs = [e for e in p.events if e.kind == 'store' and U(e.expr) == BUF
              and isinstance(e.extra, ast.List) and not e.extra.elts]
        cl = [e for e in p.calls('clear') if e.recv() == IEV]
        ctx.check(bool(rs) and bool(cl) and cc and rs[0].idx < cc[0].idx,
                  construct, 'buffer and input event reset before '
                  'connecting', key='reset', where=where(f))


FLAG = 'self.connected'


def r8_flag_machine(ctx, fam):
    m = ctx.model
    S = SIMPLE[fam]
    conn = m.method(S, 'connect')
    cls = m.cls(S)
    want = {'connect': (True, 'set'), 'disconnect': (None, 'clear'),
            '__disconnect_final': (False, 'set')}
    seen = set()
    for name, h in conn.nested.items():
        if h.name not in want:
            continue
        seen.add(h.name)
        flag, op = want[h.name]
        construct = '%s.connect.%s' % (S, h.name)
        run = run_function(h, m)
        for p in run.paths:
            if not p.normal:
                continue
            st = [e for e in p.events if e.kind == 'store' and
                  U(e.expr) == FLAG]
            ops = [e for e in p.events if e.kind == 'call' and
                   e.recv() == CEV and e.callee() in ('set', 'clear')]
            if flag is None:
                ctx.check(not st, construct, 'a transient loss leaves the '
                          '`connected` flag alone (false means ended for '
                          'good)', key='transient-flag', reason='the handler '
                          'of a transient loss assigns the `connected` flag: '
                          'a caller that was waiting out the reconnection '
                          'fails with DisconnectedError',
                          where=where(h, st[0].node if st else None))
            else:
                good = len(st) == 1 and is_const(st[0].extra, flag)
                ctx.check(good, construct, 'sets the flag to %s' % flag,
                          key='flag-value', reason='the flag is assigned %s'
                          % [txt(e.extra) for e in st], where=where(h))
            good = len(ops) == 1 and ops[0].callee() == op
            ctx.check(good, construct, 'connected event: %s()' % op,
                      key='event-op', reason='the handler does %s on the '
                      'connected event' % [e.callee() for e in ops],
                      where=where(h))
            if flag is not None and st and ops:
                ctx.check(st[-1].idx < ops[0].idx, construct, 'flag is '
                          'written before the waiters are woken',
                          key='flag-then-wake', reason='the waiters are '
                          'woken before the flag they test is written',
                          where=where(h))
    if seen != set(want):
        raise AnalysisError('%s.connect: handlers %s not found' % (
            S, sorted(set(want) - seen)))
    # who lowers the flag
    allowed = {'__init__', 'disconnect'}
    n = 0
    for f in m.funcs:
        owner = f
        while owner.cls is None and owner.parent is not None:
            owner = owner.parent
        if owner.cls is not cls:
            continue
        for node in walk_own(f.node):
            if isinstance(node, ast.Assign) and any(
                    U(t) == FLAG for t in node.targets) and \
                    not is_const(node.value, True):
                n += 1
                nested_ok = f is not owner and owner.name == 'connect' and \
                    f.name == '__disconnect_final'
                ctx.check((f is owner and owner.name in allowed) or
                          nested_ok, '%s.%s' % (S, owner.name if f is owner
                                                else owner.name + '.' +
                                                f.name),
                          'the flag is lowered only by the constructor, '
                          'disconnect() and the final-disconnect handler',
                          key='flag-lowered', reason='`connected` is lowered '
                          'outside the end of the connection',
                          where=where(f, node))
    if n < 3:
        raise AnalysisError('C19.R8 found only %d flag-lowering sites' % n)
    # who signals: the connected event is set / cleared by the connection
    # handlers only (a consumer that clears it can wipe out a set() made by
    # the reconnection or by the final disconnect in between: the waiters
    # then sleep for ever)
    k = 0
    for f in m.funcs:
        owner = f
        while owner.cls is None and owner.parent is not None:
            owner = owner.parent
        if owner.cls is not cls:
            continue
        for node in walk_own(f.node):
            if isinstance(node, ast.Call) and \
                    isinstance(node.func, ast.Attribute) and \
                    U(node.func.value) == CEV and \
                    node.func.attr in ('set', 'clear'):
                k += 1
                handler = (f is not owner and owner.name == 'connect' and
                           f.name in want) or (
                    # a reset while no connection exists
                    f is owner and node.func.attr == 'clear' and
                    owner.name in ('__init__', 'connect', 'disconnect'))
                ctx.check(handler, '%s.%s' % (S, owner.name if f is owner
                                              else owner.name + '.' + f.name),
                          'the connected event is signalled by the '
                          'connection handlers only', key='event-owner',
                          reason='%s does %s() on the connected event: it '
                          'can undo the set() of a reconnection or of the '
                          'final disconnect that happened after its own '
                          'test, and every caller of emit/call/receive then '
                          'waits for ever' % (
                              owner.name if f is owner else f.name,
                              node.func.attr), where=where(f, node))
    if k < 2:
        raise AnalysisError('C19.R8 found only %d signalling sites' % k)


def run(ctx):
    ctx.rule('C19.R9', 'TimeoutError / DisconnectedError raised by the '
             'simple clients are the package\'s classes, not builtins of the '
             'same name (qualified uses need no resolution)', floor=0)
    from .common import exception_identity
    exception_identity(ctx, ('simple_client', 'async_simple_client'),
                       'C19.R9')
    ctx.rule('C19.R1', 'publish then signal', floor=2)
    ctx.rule('C19.R3', 'FIFO: append [event, *args] / pop(0)', floor=4)
    for fam in SA:
        r1_r3_handler(ctx, fam)
    ctx.rule('C19.R2', 'clear then re-check: no wait without an empty-'
             'buffer test since the last clear; pop only after non-empty',
             floor=10)
    ctx.rule('C19.R5', 'drain before failing', floor=4)
    for fam in SA:
        r2_r5_receive(ctx, fam)
    ctx.rule('C19.R4', 'no foreign writer of the input buffer', floor=8)
    for fam in SA:
        r4_writers(ctx, fam)
    ctx.rule('C19.R6', 'emit/call gated on the connected event and flag; '
             'SocketIOError loops back', floor=12)
    for fam in SA:
        r6_emit_call(ctx, fam)
    ctx.rule('C19.R7', 'handlers and connection use the client\'s own '
             'namespace; state reset before connecting', floor=6)
    for fam in SA:
        r7_registration(ctx, fam)
    ctx.rule('C19.R8', 'connected flag / event state machine of the three '
             'connection handlers; who lowers the flag', floor=16)
    for fam in SA:
        r8_flag_machine(ctx, fam)
    ctx.assume('thread / task interleavings are NOT explored (model-checking '
               'territory); the decided part is the ordering discipline '
               'necessary for a correct hand-off')
