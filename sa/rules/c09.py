"""C09 - client events and acknowledgements.

R1 packet-type dispatch table of the client's _handle_eio_message and the
   binary reassembly arm.
R2 one handler dispatch per event; exactly one ACK iff the event carried an
   id (id over None / 0 / positive), bearing its namespace and id, after the
   handler returned; payload packing.
R3 callback typestate in _handle_ack.
R4 values stored among the callbacks are callbacks.
R5 ids from one counter per namespace; emit stores the callback before the
   packet is built and sends the id it generated.
R6 call() result shaping.
R7 dispatch passes data[0] and *data[1:].
"""
import ast

from ..model import AnalysisError
from ..sym import U, is_const, Run, run_function
from ..util import bind_call, strip_await, where, SA, CLIENT
from .common import sends, txt
from . import msgpath
from .c06 import call_result


def r5_emit_id(ctx, fam):
    m = ctx.model
    C = CLIENT[fam]
    f = m.method(C, 'emit')
    construct = C + '.emit'
    run = run_function(f, m)
    n = 0
    for p in run.paths:
        if not p.normal:
            continue
        S = [(e, pk) for e, pk, _ in sends(run, p) if pk]
        gen = p.calls('_generate_ack_id')
        cb_given = None
        for c in p.conds:
            if U(run.expand(c.atom)) == 'callback is None':
                cb_given = not c.pol
            elif U(run.expand(c.atom)) == 'callback':
                cb_given = c.pol
        if cb_given is None:
            ctx.bad(construct, 'no-callback-test', 'emit does not test for '
                    'a callback', where(f))
            continue
        for e, pk in S:
            n += 1
            pid = pk.get('id')
            if cb_given:
                good = len(gen) == 1 and gen[0].idx < e.idx and \
                    pid is not None and U(pid) == U(run.expand(gen[0].expr))\
                    and [U(run.expand(a)) for a in gen[0].expr.args] == \
                    ["namespace or '/'", 'callback']
                ctx.check(good, construct, 'with a callback: the id is '
                          'generated (and the callback stored) for this '
                          'namespace before the packet is built, and the '
                          'packet carries that id', key='emit-id',
                          reason='EVENT id is %s; _generate_ack_id calls: %s'
                          % (txt(pid), [U(g.expr) for g in gen]),
                          where=where(f, e.node))
            else:
                ctx.check(not gen and (pid is None or is_const(pid, None)),
                          construct, 'without a callback: no id',
                          key='emit-noid', reason='EVENT without callback '
                          'carries id %s' % txt(pid), where=where(f, e.node))
    if not n:
        ctx.bad(construct, 'no-send', 'emit sends nothing', where(f))


def r7_dispatch(ctx, fam):
    m = ctx.model
    C = CLIENT[fam]
    f = m.method(C, '_handle_event')
    run = run_function(f, m)
    for p in run.paths:
        for e in p.calls('_trigger_event'):
            a = e.expr.args
            good = len(a) == 3 and U(a[0]) == 'data[0]' and \
                U(a[1]) == "namespace or '/'" and \
                isinstance(a[2], ast.Starred) and U(a[2].value) == 'data[1:]'
            ctx.check(good, C + '._handle_event', 'handler dispatcher '
                      'receives (data[0], namespace, *data[1:])',
                      key='dispatch-args', reason='dispatcher invoked as %s'
                      % U(e.expr)[:90], where=where(f, e.node))


def run(ctx):
    ctx.rule('C09.R1', 'client packet-type dispatch table (7 types + '
             'unknown) and binary reassembly', floor=40)
    for fam in SA:
        msgpath.dispatch_table(ctx, CLIENT[fam], False)
        msgpath.reassembly(ctx, CLIENT[fam], False)
    ctx.rule('C09.R2', 'exactly one ACK iff the event carried an id (id '
             'over None, 0, positive), same namespace and id, after the '
             'handler; payload packing None/tuple/other', floor=20)
    for fam in SA:
        msgpath.client_ack(ctx, fam, 'C09.R2', 'C09.R2')
    ctx.rule('C09.R3', '_handle_ack: delete exactly the looked-up entry '
             'before invoking; unknown id is a silent no-op', floor=8)
    for fam in SA:
        msgpath.callback_typestate(ctx, CLIENT[fam], '_handle_ack',
                                   ("namespace or '/'", 'id'), 'C09.R3')
    ctx.rule('C09.R4', 'values stored among the callbacks are callbacks; '
             'anything else sits under a non-wire key', floor=2)
    msgpath.table_provenance(ctx, 'BaseClient', 'C09.R4')
    from .common import shared_table_aliasing
    shared_table_aliasing(
        ctx, ('callbacks',), 'a callback stored for one namespace / client '
        'is completed by an acknowledgement bearing the same id on another')
    ctx.rule('C09.R5', 'one id counter per namespace; emit generates the '
             'id before building the packet and sends that id', floor=9)
    msgpath.counter_discipline(ctx, 'BaseClient', 'namespace', 'C09.R5')
    for fam in SA:
        r5_emit_id(ctx, fam)
    ctx.rule('C09.R6', 'call(): None / single value / tuple; TimeoutError '
             'on wait failure', floor=14)
    for fam in SA:
        call_result(ctx, CLIENT[fam], 'C09.R6')
    ctx.rule('C09.R8', 'engine.io events are wired to the three handlers; '
             '_send_packet hands every frame to the transport; call() emits '
             'its own event/data/namespace with a callback', floor=8)
    msgpath.wiring(ctx, 'BaseClient', 'C09.R8')
    for fam in SA:
        msgpath.send_frames(ctx, CLIENT[fam], 'C09.R8')
        msgpath.call_forwarding(ctx, CLIENT[fam], False, 'C09.R8')
    ctx.rule('C09.R7', 'dispatch passes data[0] and *data[1:]', floor=2)
    for fam in SA:
        r7_dispatch(ctx, fam)
    ctx.rule('C08.R3', 'callbacks and the half-received packet do not '
             'survive the transport (shared rule)', floor=10)
    from .c08 import r3_reset
    for fam in SA:
        r3_reset(ctx, fam)
    ctx.rule('C13.R1', 'the responsible handler: client resolver table over '
             'all registry states; the resolver depends on the registry '
             'alone (shared rule)', floor=40)
    ctx.rule('C13.R2', 'client namespace-handler table (shared rule)',
             floor=4)
    ctx.rule('C13.R3', 'client _trigger_event passes the resolved arguments '
             'on (shared rule)', floor=10)
    from . import c13
    ctx._cur = 'C13.R1'
    c13.table_rule(ctx, 'BaseClient', '_get_event_handler', c13.event_states,
                   c13.spec_event, c13.names_event)
    ctx._cur = 'C13.R2'
    c13.table_rule(ctx, 'BaseClient', '_get_namespace_handler',
                   c13.ns_states, c13.spec_ns, c13.names_ns)
    ctx._cur = 'C13.R3'
    for cname in ('Client', 'AsyncClient'):
        c13.r3_trigger(ctx, cname, False)
    ctx.rule('C13.R4', 'class-based client namespaces hand the method\'s '
             'result back (it becomes the ACK payload) (shared rule)',
             floor=6)
    for cname in ('ClientNamespace', 'AsyncClientNamespace'):
        c13.r4_namespace_trigger(ctx, cname)
    ctx.assume('exactly-once over arbitrary packet sequences is reduced to '
               'one dispatch / one ACK per packet path')
