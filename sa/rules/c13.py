"""C13 - handler resolution follows the documented precedence.

R1 (K1 decision table): `_get_event_handler` of BaseServer and BaseClient is
evaluated over *all* consistent presence/absence states of the registry
abstraction (namespace in H, event in H[ns], '*' in H[ns], '*' in H,
event in H['*'], '*' in H['*'], event reserved) by symbolic path enumeration
with an oracle that interprets every test over the abstract registry.  The
outcome (which entry, which argument list) of each row is compared with the
documented order.
R2: the same for `_get_namespace_handler`.
R3: `_trigger_event` x4 consults the class-based namespace only when no
function handler was found and passes the resolved argument list on.
R4: `trigger_event` of the four namespace classes dispatches to
`on_<event>` and to nothing when that attribute is absent.
R5: the reserved-event sets contain the documented names.

Assumption (stated in evidence): event and namespace names are not the literal
'*'; registered handlers are truthy objects.
"""
import ast
import itertools

from ..model import AnalysisError
from ..sym import U, Run, run_function, is_const
from ..util import where, strip_await, bind_call, walk_own

NS, EV, STAR = 'ns', 'ev', '*'


class Handler:
    def __init__(self, table, k1, k2=None):
        self.table, self.k1, self.k2 = table, k1, k2

    def __eq__(self, o):
        return isinstance(o, Handler) and \
            (self.table, self.k1, self.k2) == (o.table, o.k1, o.k2)

    def __repr__(self):
        if self.k2 is None:
            return '%s[%s]' % (self.table, self.k1)
        return '%s[%s][%s]' % (self.table, self.k1, self.k2)


class Sub:
    """H[k1]: the per-namespace dict of event handlers"""

    def __init__(self, table, k1):
        self.table, self.k1 = table, k1


class Top:
    def __init__(self, table):
        self.table = table


class Unknown(Exception):
    pass


class Registry:
    """One abstract state of the handler registries."""

    def __init__(self, top, subs, reserved, table='handlers', two_level=True):
        self.top = top            # set of keys present at top level
        self.subs = subs          # k1 -> set of keys present
        self.reserved = reserved
        self.table = table
        self.two_level = two_level

    def key(self, node, names):
        if is_const(node, '*'):
            return STAR
        if isinstance(node, ast.Name) and node.id in names:
            return names[node.id]
        raise Unknown('key ' + U(node))

    def absval(self, node, names):
        """Abstract value of an expression over this registry."""
        if isinstance(node, ast.Constant):
            return node.value
        if isinstance(node, ast.Attribute) and U(node) == 'self.' + self.table:
            return Top(self.table)
        if isinstance(node, ast.Subscript):
            base = self.absval(node.value, names)
            if isinstance(base, Top):
                k = self.key(node.slice, names)
                if k not in self.top:
                    raise Unknown('KeyError on absent key ' + U(node))
                if not self.two_level:
                    return Handler(self.table, k)
                return Sub(self.table, k)
            if isinstance(base, Sub):
                k = self.key(node.slice, names)
                if k not in self.subs[base.k1]:
                    raise Unknown('KeyError on absent key ' + U(node))
                return Handler(self.table, base.k1, k)
            raise Unknown(U(node))
        if isinstance(node, ast.Call) and isinstance(node.func, ast.Attribute)\
                and node.func.attr == 'get' and 1 <= len(node.args) <= 2:
            base = self.absval(node.func.value, names)
            dflt = self.absval(node.args[1], names) if len(node.args) == 2 \
                else None
            k = self.key(node.args[0], names)
            if isinstance(base, Top):
                if k not in self.top:
                    return dflt
                return Handler(self.table, k) if not self.two_level \
                    else Sub(self.table, k)
            if isinstance(base, Sub):
                if k not in self.subs[base.k1]:
                    return dflt
                return Handler(self.table, base.k1, k)
            if isinstance(base, dict) and not base:
                return dflt
            raise Unknown(U(node))
        if isinstance(node, ast.Dict) and not node.keys:
            return {}
        raise Unknown(U(node))

    def truth(self, atom, names):
        """Truth of a normalised positive atom, or raise Unknown."""
        if isinstance(atom, ast.Compare) and len(atom.ops) == 1:
            op = atom.ops[0]
            left, right = atom.left, atom.comparators[0]
            if isinstance(op, ast.In):
                if U(right) == 'self.reserved_events':
                    tok = names.get('__tok__', {})
                    if isinstance(left, ast.Name) and \
                            tok.get(left.id) == 'event':
                        # the event is literally '*': never reserved
                        return self.reserved if names[left.id] == EV \
                            else False
                    if self.key(left, names) != EV:
                        raise Unknown(U(atom))
                    return self.reserved
                cont = self.absval(right, names)
                k = self.key(left, names)
                if isinstance(cont, Top):
                    return k in self.top
                if isinstance(cont, Sub):
                    return k in self.subs[cont.k1]
                if isinstance(cont, dict) and not cont:
                    return False
                raise Unknown(U(atom))
            if isinstance(op, ast.Is) and is_const(right, None):
                return self.absval(left, names) is None
            if isinstance(op, ast.Eq):
                # comparison of an event / namespace name with the literal
                # '*' (or with each other)
                def is_key(n):
                    return is_const(n, '*') or (
                        isinstance(n, ast.Name) and n.id in names and
                        names[n.id] != 'ARGS')
                if is_key(left) and is_key(right):
                    return self.key(left, names) == self.key(right, names)
                a = self.absval(left, names)
                b = self.absval(right, names)
                return a == b
            raise Unknown(U(atom))
        v = self.absval(atom, names)
        if isinstance(v, (Handler, Sub, Top)):
            return True
        return bool(v)


def flatten_args(node, names):
    """Abstract argument list: tokens 'event', 'namespace', '*args'."""
    if isinstance(node, ast.Name) and names.get(node.id) == 'ARGS':
        return ['*args']
    if isinstance(node, ast.Tuple):
        out = []
        for e in node.elts:
            if isinstance(e, ast.Starred):
                out += flatten_args(e.value, names)
            elif isinstance(e, ast.Name) and e.id in names:
                tok = names.get('__tok__', {})
                out.append(tok.get(e.id) or {EV: 'event', NS: 'namespace'}
                           .get(names[e.id], e.id))
            else:
                raise Unknown('argument ' + U(e))
        return out
    raise Unknown('argument list ' + U(node))


def event_states():
    for has_ns, has_star in itertools.product([False, True], repeat=2):
        ns_sets = [set()] if not has_ns else \
            [set(x) for x in ([], [EV], [STAR], [EV, STAR])]
        st_sets = [set()] if not has_star else \
            [set(x) for x in ([], [EV], [STAR], [EV, STAR])]
        for a in ns_sets:
            for b in st_sets:
                for reserved in (False, True):
                    top = set()
                    if has_ns:
                        top.add(NS)
                    if has_star:
                        top.add(STAR)
                    yield Registry(top, {NS: a, STAR: b}, reserved)


def spec_event(reg):
    if NS in reg.top and EV in reg.subs[NS]:
        return Handler('handlers', NS, EV), ['*args']
    if NS in reg.top and not reg.reserved and STAR in reg.subs[NS]:
        return Handler('handlers', NS, STAR), ['event', '*args']
    if STAR in reg.top and EV in reg.subs[STAR]:
        return Handler('handlers', STAR, EV), ['namespace', '*args']
    if STAR in reg.top and not reg.reserved and STAR in reg.subs[STAR]:
        return Handler('handlers', STAR, STAR), \
            ['event', 'namespace', '*args']
    return None, ['*args']


def spec_event_star_event(reg):
    """the event is literally named '*': there is no specific handler for
    it (the key '*' IS the catch-all), so it is routed like any event
    without a specific handler - and the catch-all receives its name"""
    if NS in reg.top and STAR in reg.subs[NS]:
        return Handler('handlers', NS, STAR), ['event', '*args']
    if STAR in reg.top and STAR in reg.subs[STAR]:
        return Handler('handlers', STAR, STAR), \
            ['event', 'namespace', '*args']
    return None, ['*args']


def spec_event_star_ns(reg):
    """the namespace is literally named '*' (possible with serializers that
    do not constrain it): it has no handlers of its own, the catch-all
    namespace's handlers receive its name"""
    if STAR in reg.top and EV in reg.subs[STAR]:
        return Handler('handlers', STAR, EV), ['namespace', '*args']
    if STAR in reg.top and not reg.reserved and STAR in reg.subs[STAR]:
        return Handler('handlers', STAR, STAR), \
            ['event', 'namespace', '*args']
    return None, ['*args']


def _tok(d):
    return {[k for k, v in d.items() if v == EV][0]: 'event',
            [k for k, v in d.items() if v == NS][0]: 'namespace'}


def names_event_star_event(f):
    d = names_event(f)
    tok = _tok(d)
    ev = [k for k, v in d.items() if v == EV][0]
    d[ev] = STAR
    d['__tok__'] = tok
    return d


def names_event_star_ns(f):
    d = names_event(f)
    tok = _tok(d)
    ns = [k for k, v in d.items() if v == NS][0]
    d[ns] = STAR
    d['__tok__'] = tok
    return d


def names_ns_star(f):
    d = names_ns(f)
    ns = [k for k, v in d.items() if v == NS][0]
    d['__tok__'] = {ns: 'namespace'}
    d[ns] = STAR
    return d


def ns_states_star():
    for has_star in (False, True):
        yield Registry({STAR} if has_star else set(), {}, False,
                       table='namespace_handlers', two_level=False)


def spec_ns_star(reg):
    if STAR in reg.top:
        return Handler('namespace_handlers', STAR), ['namespace', '*args']
    return None, ['*args']


def star_states(kind):
    for reg in event_states():
        if kind == 'event' and reg.reserved:
            continue          # '*' is not a reserved event
        if kind == 'ns' and NS in reg.top:
            continue          # the namespace key coincides with '*'
        yield reg


def ns_states():
    for has_ns, has_star in itertools.product([False, True], repeat=2):
        top = set()
        if has_ns:
            top.add(NS)
        if has_star:
            top.add(STAR)
        yield Registry(top, {}, False, table='namespace_handlers',
                       two_level=False)


def spec_ns(reg):
    if NS in reg.top:
        return Handler('namespace_handlers', NS), ['*args']
    if STAR in reg.top:
        return Handler('namespace_handlers', STAR), ['namespace', '*args']
    return None, ['*args']


def describe(reg):
    if reg.two_level:
        return 'H.keys=%s H[ns]=%s H[*]=%s reserved=%s' % (
            sorted(reg.top), sorted(reg.subs[NS]) if NS in reg.top else '-',
            sorted(reg.subs[STAR]) if STAR in reg.top else '-', reg.reserved)
    return 'NH.keys=%s' % sorted(reg.top)


_MODEL = [None]


def eval_row(f, reg, names):
    problems = []

    def oracle(atom, run, st):
        try:
            return reg.truth(run.expand(atom), names)
        except Unknown as e:
            problems.append(str(e))
            return None
    run = run_function(f, _MODEL[0], oracle=oracle)
    if problems or len(run.paths) != 1:
        raise AnalysisError(
            '%s: test outside the registry abstraction (%s) in state %s; '
            'the decision-table evaluator cannot give a verdict on this '
            'form' % (f.qualname, '; '.join(problems[:3]) or
                      '%d paths' % len(run.paths), describe(reg)))
    p = run.paths[0]
    if p.exit != 'return' or not isinstance(p.value, ast.Tuple) or \
            len(p.value.elts) != 2:
        raise AnalysisError('%s: expected `return handler, args`, found %s'
                            % (f.qualname, U(p.value)))
    hv, av = [run.expand(e) for e in p.value.elts]
    try:
        h = reg.absval(hv, names)
    except Unknown as e:
        return ('?', str(e)), None
    try:
        a = flatten_args(av, names)
    except Unknown as e:
        return h, ('?', str(e))
    return h, a


REGISTRY_ATTRS = {'handlers', 'namespace_handlers'}


MUTATORS = {'add', 'append', 'update', 'pop', 'discard', 'clear',
            'setdefault', 'remove', 'insert', 'extend', 'popitem'}


def is_config_attr(m, attr):
    """assigned only in constructors / class bodies and never mutated in
    place anywhere in the package"""
    if not m.is_stable_attr(attr):
        return False
    cache = m.__dict__.setdefault('_c13_mutated', None)
    if cache is None:
        cache = set()
        for g in m.funcs:
            for n in ast.walk(g.node):
                if isinstance(n, ast.Call) and \
                        isinstance(n.func, ast.Attribute) and \
                        n.func.attr in MUTATORS and \
                        isinstance(n.func.value, ast.Attribute):
                    cache.add(n.func.value.attr)
        m.__dict__['_c13_mutated'] = cache
    return attr not in cache


def resolver_is_pure(ctx, f, construct):
    """the resolver is a function of the registry and its arguments alone:
    it reads no other attribute of the object and stores nothing on it (a
    cache makes the answer depend on the events seen before a registration,
    which no finite table over registry states describes)."""
    m = ctx.model
    from ..sym import with_new_helpers
    bad = []
    for g in with_new_helpers(m, f):
        for n in walk_own(g.node):
            if isinstance(n, ast.Attribute) and U(n.value) == 'self':
                if isinstance(n.ctx, (ast.Store, ast.Del)):
                    bad.append((g, n, 'writes self.%s' % n.attr))
                elif n.attr not in REGISTRY_ATTRS and \
                        m.lookup(f.cls, n.attr) is None and \
                        not is_config_attr(m, n.attr):
                    bad.append((g, n, 'reads self.%s' % n.attr))
            if isinstance(n, (ast.Global, ast.Nonlocal)):
                bad.append((g, n, 'uses %s state' % type(n).__name__.lower()))
    seen = set()
    for g, n, what in bad:
        if what in seen:
            continue
        seen.add(what)
        ctx.bad(construct, 'resolver-state ' + what, 'the handler resolver '
                '%s: the responsible handler then depends on which events '
                'arrived before a registration, not on the registry alone '
                '(a handler registered later under a catch-all key is never '
                'consulted for an event resolved earlier)' % what,
                where(g, n))
    ctx.check(not bad, construct, 'the resolver reads only the registry and '
              'its arguments and stores nothing', key='resolver-pure',
              where=where(f))
    return not bad


def table_rule(ctx, cname, fname, states, spec, names_of):
    m = ctx.model
    _MODEL[0] = m
    f = m.method(cname, fname)
    names = names_of(f)
    construct = '%s.%s' % (cname, fname)
    if not resolver_is_pure(ctx, f, construct):
        return 0
    rows = 0
    for reg in states():
        rows += 1
        got = eval_row(f, reg, names)
        want = spec(reg)
        row = describe(reg)
        ok = got[0] == want[0] and got[1] == want[1]
        ctx.check(ok, construct, 'row {%s} -> %s%s' % (row, want[0],
                                                       tuple(want[1])),
                  key='row-family %s wants %s got %s' % (
                      'ns-present' if NS in reg.top else 'ns-absent',
                      want[0], got[0]),
                  reason='registry state {%s}: documented target %s with '
                  'arguments %s, code yields %s with %s' % (
                      row, want[0], want[1], got[0], got[1]),
                  where=where(f), witness=row)
    return rows


def names_event(f):
    ps = f.params[1:]
    if len(ps) != 3:
        raise AnalysisError('%s: expected (event, namespace, args)'
                            % f.qualname)
    return {ps[0]: EV, ps[1]: NS, ps[2]: 'ARGS'}


def names_ns(f):
    ps = f.params[1:]
    if len(ps) != 2:
        raise AnalysisError('%s: expected (namespace, args)' % f.qualname)
    return {ps[0]: NS, ps[1]: 'ARGS'}


def legacy_retry(ctx, cname, fname='_trigger_event'):
    """a handler that raises TypeError is re-invoked only for the
    'disconnect' event, without the last argument (handlers written before
    the reason argument existed), and that result is what is returned; for
    any other event the TypeError propagates."""
    m = ctx.model
    f = m.method(cname, fname)
    construct = '%s.%s' % (cname, fname)
    ev = f.params[1]

    def fn_call(e, run):
        fx = run.expand(e.expr.func)
        if fname == 'trigger_event':
            # class-based namespace: getattr(self, 'on_' + event)(...)
            return isinstance(fx, ast.Call) and U(fx.func) == 'getattr'
        return isinstance(fx, ast.Subscript) and \
            isinstance(fx.value, ast.Call) and is_const(fx.slice, 0) and \
            U(fx.value.func).endswith('_get_event_handler')
    def raiser2(e):
        # e.expr.func is a value symbol or a subscript of the lookup result
        t = U(e.expr.func) if e.kind == 'call' else ''
        if e.kind == 'call' and (t.startswith('handler') or '[0]' in t or
                                 t.startswith('getattr(self')):
            return [{'TypeError'}]
        return None
    run = run_function(f, m, raiser=raiser2)
    n_retry = n_raise = 0
    for p in run.paths:
        caught = [e for e in p.events if e.kind == 'caught' and
                  'TypeError' in U(e.expr) and e.extra is not None and
                  e.extra.origin is not None and
                  fn_call(e.extra.origin, run)]
        if not caught:
            continue
        is_disc = None
        for c in p.conds:
            a = run.expand(c.atom)
            if c.at >= caught[0].idx and isinstance(a, ast.Compare) and \
                    U(a.left) == ev and is_const(a.comparators[0],
                                                 'disconnect'):
                is_disc = c.pol
        later = [e for e in p.events[caught[0].idx:] if e.kind == 'call' and
                 fn_call(e, run)]
        if is_disc:
            n_retry += 1
            a = later[0].expr.args if later else []
            shape = len(a) == 1 and isinstance(a[0], ast.Starred) and \
                isinstance(a[0].value, ast.Subscript) and \
                isinstance(a[0].value.slice, ast.Slice) and \
                a[0].value.slice.lower is None and \
                U(a[0].value.slice.upper) == '-1'
            rv = strip_await(run.expand(p.value)) \
                if p.value is not None else None
            ok = len(later) == 1 and shape and p.exit == 'return' and \
                rv is not None and U(rv) == U(run.expand(later[0].expr))
            # an exceptional continuation of the retry itself is its own path
            if p.exit == 'exc':
                continue
            ctx.check(ok, construct, "TypeError on 'disconnect': the handler "
                      'is re-invoked once without the last argument and its '
                      'result returned', key='legacy-retry',
                      reason="after a TypeError of a 'disconnect' handler: "
                      '%d re-invocation(s) %s, exit %s' % (
                          len(later), [U(e.expr)[:40] for e in later],
                          p.exit), where=where(f, caught[0].node))
        elif is_disc is False:
            n_raise += 1
            ctx.check(not later and p.exit in ('raise', 'exc'), construct,
                      'TypeError on any other event propagates',
                      key='legacy-other', reason='a TypeError of a handler '
                      'of another event is followed by %d re-invocation(s), '
                      'exit %s' % (len(later), p.exit),
                      where=where(f, caught[0].node))
    if not n_retry:
        ctx.bad(construct, 'legacy-missing', "no path re-invokes a "
                "'disconnect' handler after TypeError (legacy one-argument "
                'handlers would fail)', where(f))


def r3_trigger(ctx, cname, is_server):
    m = ctx.model
    f = m.method(cname, '_trigger_event')
    construct = '%s._trigger_event' % cname
    w = where(f)
    legacy_retry(ctx, cname)
    # application handlers may raise TypeError (legacy retry); we only need
    # normal paths here
    run = run_function(f, m)
    normal = [p for p in run.paths if p.normal]
    if not normal:
        ctx.bad(construct, 'no-normal-path', 'no normal path', w)
        return
    seen_fn = seen_cls = seen_none = 0
    for p in normal:
        geh = p.calls('_get_event_handler')
        gnh = p.calls('_get_namespace_handler')
        if len(geh) != 1:
            ctx.bad(construct, 'lookup-count', 'a path does not consult '
                    '_get_event_handler exactly once: ' + p.describe(), w)
            continue
        b = bind_call(geh[0].expr, m.method(cname, '_get_event_handler'))
        okb = [U(b.get(k)) for k in ('event', 'namespace', 'args')] == \
            list(f.params[1:3]) + [f.vararg]
        ctx.check(okb, construct, 'event lookup receives (event, namespace, '
                  'args) of the trigger', key='lookup-args', where=w)
        ge_sym = None
        # which handler objects are invoked on this path?
        invoked = []
        for e in p.events:
            if e.kind != 'call':
                continue
            fx = run.expand(e.expr.func)
            if isinstance(fx, ast.Subscript) and \
                    isinstance(fx.value, ast.Call) and is_const(fx.slice, 0):
                invoked.append(('fn', fx.value, e))
            elif isinstance(fx, ast.Attribute) and fx.attr == 'trigger_event' \
                    and isinstance(fx.value, ast.Subscript) and \
                    isinstance(fx.value.value, ast.Call):
                invoked.append(('cls', fx.value.value, e))
        fn_calls = [i for i in invoked if i[0] == 'fn' and
                    U(i[1].func).endswith('_get_event_handler')]
        cls_calls = [i for i in invoked if i[0] == 'cls' and
                     U(i[1].func).endswith('_get_namespace_handler')]
        # truth of "function handler found" on this path
        fn_found = None
        for c in p.conds:
            a = run.expand(c.atom)
            if isinstance(a, ast.Subscript) and isinstance(a.value, ast.Call) \
                    and U(a.value.func).endswith('_get_event_handler') and \
                    is_const(a.slice, 0):
                fn_found = c.pol
            if isinstance(a, ast.Compare) and isinstance(a.ops[0], ast.Is) \
                    and is_const(a.comparators[0], None):
                l = a.left
                if isinstance(l, ast.Subscript) and \
                        isinstance(l.value, ast.Call) and \
                        U(l.value.func).endswith('_get_event_handler') and \
                        is_const(l.slice, 0):
                    fn_found = not c.pol
        if fn_found is None:
            ctx.bad(construct, 'no-test', 'a path does not test whether a '
                    'function handler was found: ' + p.describe(), w)
            continue
        if fn_found:
            seen_fn += 1
            ctx.check(bool(fn_calls) and not gnh and not cls_calls, construct,
                      'function handler found: it is invoked and the '
                      'class-based namespace is not consulted',
                      key='fn-path', reason='with a function handler found '
                      'the path invokes %s' % [U(i[2].expr)[:40]
                                               for i in invoked], where=w)
            # args are the resolved args
            for i in fn_calls:
                a = i[2].expr.args
                good = len(a) == 1 and isinstance(a[0], ast.Starred)
                if good:
                    ax = run.expand(a[0].value)
                    if isinstance(ax, ast.Subscript) and \
                            isinstance(ax.slice, ast.Slice):
                        # legacy retry handler(*args[:-1]) for 'disconnect'
                        ax = ax.value
                    good = isinstance(ax, ast.Subscript) and \
                        is_const(ax.slice, 1) and same_call(ax.value, i[1])
                ctx.check(good, construct, 'function handler receives the '
                          'resolved argument list', key='fn-args',
                          reason='handler invoked with %s' % U(i[2].expr)[:80],
                          where=w)
            # result returned
            rv = strip_await(run.expand(p.value)) if p.value is not None \
                else None
            ctx.check(p.exit == 'return' and rv is not None and any(
                same_call(rv, i[2].expr) or
                U(strip_await(rv)) == U(run.expand(i[2].expr))
                for i in fn_calls) or (
                    p.exit == 'return' and is_const(rv, None) and
                    f.is_async), construct,
                'the function handler result is returned', key='fn-result',
                reason='path returns %s' % (U(p.value) if p.value is not None
                                            else 'nothing'), where=w)
        else:
            ctx.check(not fn_calls, construct, 'no function handler: none '
                      'invoked', key='fn-absent-call', where=w)
            if len(gnh) != 1:
                ctx.bad(construct, 'ns-lookup', 'without a function handler '
                        'the class-based namespace lookup must happen once',
                        w)
                continue
            b2 = bind_call(gnh[0].expr,
                           m.method(cname, '_get_namespace_handler'))
            a_ns = run.expand(b2.get('args'))
            good = isinstance(a_ns, ast.Subscript) and is_const(a_ns.slice, 1)\
                and U(a_ns.value.func).endswith('_get_event_handler')
            good = good or U(a_ns) == f.vararg
            ctx.check(good and U(b2.get('namespace')) == f.params[2],
                      construct, 'namespace lookup receives the namespace '
                      'and the argument list', key='ns-lookup-args', where=w)
            if cls_calls:
                seen_cls += 1
                e = cls_calls[0][2]
                a = e.expr.args
                good = len(a) == 2 and U(a[0]) == f.params[1] and \
                    isinstance(a[1], ast.Starred)
                ctx.check(good, construct, 'class-based namespace receives '
                          '(event, *args)', key='cls-args',
                          reason='trigger_event called as %s' % U(e.expr)[:80],
                          where=w)
                rv = strip_await(run.expand(p.value)) \
                    if p.value is not None else None
                ctx.check(rv is not None and
                          U(rv) == U(run.expand(e.expr)), construct,
                          'class-based namespace result is returned',
                          key='cls-result', where=w)
            else:
                seen_none += 1
                if is_server:
                    ctx.check(p.exit == 'return' and
                              U(p.value) == 'self.not_handled', construct,
                              'nobody responsible: the not_handled sentinel '
                              'is returned', key='sentinel',
                              reason='returns %s' % (U(p.value)), where=w)
                else:
                    ctx.check(p.exit == 'fall' or is_const(p.value, None),
                              construct, 'nobody responsible: returns None',
                              key='client-none', where=w)
    for n, what in ((seen_fn, 'function-handler path'),
                    (seen_cls, 'class-based path'),
                    (seen_none, 'nobody-responsible path')):
        if not n:
            ctx.bad(construct, 'missing ' + what,
                    'the dispatcher has no %s' % what, w)


def same_call(a, b):
    return isinstance(a, ast.Call) and isinstance(b, ast.Call) and \
        ast.dump(a) == ast.dump(b)


def r4_namespace_trigger(ctx, cname):
    m = ctx.model
    f = m.method(cname, 'trigger_event')
    construct = '%s.trigger_event' % cname
    w = where(f)
    legacy_retry(ctx, cname, 'trigger_event')
    run = run_function(f, m)
    ev = f.params[1]
    n_call = n_nocall = 0
    for p in run.paths:
        if not p.normal:
            continue
        has = None
        for c in p.conds:
            a = run.expand(c.atom)
            if isinstance(a, ast.Call) and U(a.func) == 'hasattr' and \
                    len(a.args) == 2 and U(a.args[0]) == 'self':
                nm = a.args[1]
                good = isinstance(nm, ast.BinOp) and \
                    isinstance(nm.op, ast.Add) and is_const(nm.left, 'on_') \
                    and U(nm.right) in (ev, "%s or ''" % ev)
                ctx.check(good, construct, 'looks for attribute '
                          "'on_' + event", key='attr-name',
                          reason='tests hasattr(self, %s)' % U(nm), where=w)
                has = c.pol
        invoked = []
        for e in p.events:
            if e.kind != 'call':
                continue
            fx = run.expand(e.expr.func)
            if isinstance(fx, ast.Call) and U(fx.func) == 'getattr':
                invoked.append((e, fx))
        if has is None:
            ctx.bad(construct, 'no-hasattr', 'a path dispatches without '
                    'testing for the on_<event> attribute: ' + p.describe(),
                    w)
            continue
        if has:
            n_call += 1
            good = bool(invoked)
            for e, fx in invoked:
                nm = fx.args[1] if len(fx.args) > 1 else None
                good = good and U(fx.args[0]) == 'self' and \
                    isinstance(nm, ast.BinOp) and is_const(nm.left, 'on_') \
                    and U(nm.right) in (ev, "%s or ''" % ev)
                a = e.expr.args
                good = good and len(a) == 1 and isinstance(a[0], ast.Starred)
            ctx.check(good, construct, 'invokes getattr(self, "on_"+event)'
                      '(*args)', key='dispatch',
                      reason='invokes %s' % [U(e.expr)[:60]
                                             for e, _ in invoked], where=w)
            if invoked and p.value is not None:
                rv = strip_await(run.expand(p.value))
                okr = any(U(rv) == U(run.expand(e.expr)) for e, _ in invoked)
                cancelled = any(e.kind == 'caught' and
                                'CancelledError' in U(e.expr)
                                for e in p.events)
                okr = okr or (is_const(rv, None) and f.is_async and
                              cancelled)
                ctx.check(okr, construct, 'returns the method result',
                          key='result', where=w)
            elif invoked:
                ctx.bad(construct, 'result', 'method result not returned', w)
        else:
            n_nocall += 1
            ctx.check(not invoked and (p.exit == 'fall' or
                                       is_const(p.value, None)), construct,
                      'attribute absent: nothing invoked, None returned',
                      key='absent', where=w)
    if not n_call or not n_nocall:
        ctx.bad(construct, 'paths', 'dispatcher lacks the present/absent '
                'arms', w)


def run(ctx):
    ctx.rule('C13.R1', 'event-handler decision table: all consistent '
             'registry states x {server, client}', floor=100)
    rows = 0
    for cname in ('BaseServer', 'BaseClient'):
        rows += table_rule(ctx, cname, '_get_event_handler', event_states,
                           spec_event, names_event)
    ctx.extra['event_table_rows'] = rows
    ctx.rule('C13.R7', 'names that coincide with the catch-all key: an event '
             'or a namespace literally named "*" (a client chooses the event '
             'name; msgpack does not constrain the namespace) is routed to '
             'the catch-all targets WITH its name prepended, never matched '
             'as if "*" were a specific key', floor=40)
    for cname in ('BaseServer', 'BaseClient'):
        table_rule(ctx, cname, '_get_event_handler',
                   lambda: star_states('event'), spec_event_star_event,
                   names_event_star_event)
        table_rule(ctx, cname, '_get_event_handler',
                   lambda: star_states('ns'), spec_event_star_ns,
                   names_event_star_ns)
        table_rule(ctx, cname, '_get_namespace_handler', ns_states_star,
                   spec_ns_star, names_ns_star)
    ctx.rule('C13.R6', 'the handler tables of different namespaces are '
             'distinct objects', floor=2)
    from .common import shared_table_aliasing
    shared_table_aliasing(
        ctx, ('handlers', 'namespace_handlers'), 'a handler registered for '
        'one namespace is found (at the highest precedence) for the same '
        'event on every other namespace')
    ctx.rule('C13.R2', 'namespace-handler decision table', floor=8)
    for cname in ('BaseServer', 'BaseClient'):
        table_rule(ctx, cname, '_get_namespace_handler', ns_states, spec_ns,
                   names_ns)
    ctx.rule('C13.R3', '_trigger_event: function handler first, class-based '
             'namespace only otherwise; resolved args passed on; sentinel / '
             'None when nobody is responsible', floor=20)
    for cname, srv in (('Server', True), ('AsyncServer', True),
                       ('Client', False), ('AsyncClient', False)):
        r3_trigger(ctx, cname, srv)
    ctx.rule('C13.R4', 'class-based namespaces dispatch to on_<event> and to '
             'nothing when absent', floor=12)
    for cname in ('Namespace', 'AsyncNamespace', 'ClientNamespace',
                  'AsyncClientNamespace'):
        r4_namespace_trigger(ctx, cname)
    ctx.rule('C13.R5', 'reserved event sets', floor=2)
    m = ctx.model
    for cname, need in (('BaseServer', {'connect', 'disconnect'}),
                        ('BaseClient', {'connect', 'connect_error',
                                        'disconnect'})):
        v = m.cls(cname).class_attrs.get('reserved_events')
        got = set()
        if isinstance(v, (ast.List, ast.Tuple, ast.Set)):
            got = {e.value for e in v.elts if isinstance(e, ast.Constant)}
        ctx.check(need <= got, cname + '.reserved_events',
                  'contains %s' % sorted(need), key='reserved',
                  reason='reserved_events is %s' % sorted(got),
                  where=m.cls(cname).module.relpath)
    ctx.assume("names that coincide with the catch-all key '*' are covered "
               "by their own row family (C13.R7)")
    ctx.assume('registered handlers are truthy, non-None objects')
    ctx.assume('sub-registries are only consulted under their own key '
               '(KeyError on an absent key counts as outside the table)')
