"""C18 - admin instrumentation: gated by credentials, invisible to the
application.  Full transparency (timing, failures inside the
instrumentation) is NOT decided.

R1 credential decision table of admin_connect over auth kind in {falsy,
   dict, list, sync predicate, coroutine predicate} x {match, no match}:
   every non-raising row has auth falsy or `authenticated` defined by the
   comparison that belongs to the kind and true; every other row raises
   ConnectionRefusedError before any side effect.
R2 read-only gating: a handler registration whose handler can emit outside
   the admin namespace, change rooms or disconnect clients is dominated by
   `not self.read_only`; all registrations are on the admin namespace.
R3 wrappers installed by instrument() delegate unchanged: the saved original
   is called exactly once on every normal path with the wrapper's own
   parameters and its result is what the wrapper returns.
R4 the instrumentation emits only on the admin namespace (admin_emit
   excepted, which is R2-gated).
R5 the instrumentation's own tables cannot make a wrapper fail in front of
   the application: a table the instrumentation hangs on the server (derived
   from instrument()) and deletes from unconditionally in one wrapper arm is
   filled, in the arm that fills it, BEFORE the original is called - the
   application code running inside the original may already end the client,
   which enters the deleting arm.
"""
import ast

from ..model import AnalysisError, FuncInfo
from ..sym import U, is_const, Run, run_function
from ..util import (bind_call, strip_await, where, SA, walk_own,
                    expand_aliases)
from .common import txt

ADMIN = {'sync': 'InstrumentedServer', 'async': 'InstrumentedAsyncServer'}
KINDS = ['falsy', 'dict', 'list', 'pred', 'copred']


def r1_credentials(ctx, fam):
    m = ctx.model
    A = ADMIN[fam]
    f = m.method(A, 'admin_connect')
    construct = A + '.admin_connect'
    w = where(f)
    cred = f.params[3]
    for kind in KINDS:
        if kind == 'copred' and fam == 'sync':
            continue
        for match in (True, False):
            problems = []
            foreign = []

            def oracle(atom, run, st, kind=kind, match=match):
                a = run.expand(atom)
                t = U(strip_await(a))
                if t == 'self.auth':
                    return kind != 'falsy'
                sa = strip_await(a)
                if isinstance(sa, ast.Call) and U(sa.func) == 'isinstance' \
                        and len(sa.args) == 2 and \
                        U(sa.args[0]) == 'self.auth':
                    ty = sa.args[1]
                    names = [U(x) for x in (ty.elts if isinstance(
                        ty, ast.Tuple) else [ty])]
                    return kind in names
                if t in ('asyncio.iscoroutinefunction(self.auth)',
                         'iscoroutinefunction(self.auth)'):
                    return kind == 'copred'
                if t in ('%s == self.auth' % cred, 'self.auth == %s' % cred,
                         '%s in self.auth' % cred,
                         'self.auth(%s)' % cred):
                    return match
                if t in ('self.read_only', "self.mode == 'development'"):
                    return None
                if cred in t or 'self.auth' in t:
                    foreign.append(t)
                    return match
                problems.append(t)
                return None
            try:
                run = run_function(f, ctx.model, oracle=oracle, max_iter=1)
                paths = [p for p in run.paths]
            except AnalysisError as e:
                problems.append(str(e))
                paths = []
            if foreign:
                for t in sorted(set(foreign))[:3]:
                    ctx.bad(construct, 'foreign-comparison ' + kind,
                            'for auth of kind %s the credential decision '
                            'depends on `%s`, which is not the comparison '
                            'that belongs to the kind (dict: equality with '
                            'the configured credentials; list: membership; '
                            'predicate: its result)' % (kind, t[:80]), w)
                continue
            # config() internals fork on read_only/mode: those are nested
            # defs and not entered, so one path per row is expected
            if problems or len(paths) != 1:
                raise AnalysisError('%s: test outside the credential '
                                    'abstraction (%s; %d paths) for row '
                                    '%s/%s' % (construct, problems[:2],
                                               len(paths), kind, match))
            p = paths[0]
            row = 'auth=%s credentials %s' % (
                kind, 'match' if match else 'do not match')
            accept_expected = kind == 'falsy' or match
            refused = p.exit == 'raise' and \
                'ConnectionRefusedError' in U(p.value)
            ctx.check(refused != accept_expected and
                      (refused or p.normal), construct,
                      '[%s] -> %s' % (row, 'accepted' if accept_expected
                                      else 'ConnectionRefusedError'),
                      key='row ' + row, reason='row {%s}: the connection is '
                      '%s' % (row, 'refused' if refused else
                              'accepted' if p.normal else p.exit),
                      where=w, witness=row)
            if refused:
                side = [e for e in p.events if e.kind == 'call' and
                        U(e.expr.func).startswith('self.sio.')]
                ctx.check(not side, construct, '[%s] refused before any '
                          'side effect' % row, key='refuse-first',
                          reason='a refused admin connection already did %s'
                          % [U(e.expr)[:40] for e in side], where=w)
            # the decisive comparison belongs to the kind
            if kind != 'falsy':
                dec = None
                for c in p.conds:
                    d = run.sym_of(c.atom)
                    if d is not None and d['name'] == 'authenticated' or \
                            U(strip_await(run.expand(c.atom))) in (
                                '%s == self.auth' % cred,
                                '%s in self.auth' % cred,
                                'self.auth(%s)' % cred):
                        dec = run.expand(c.atom)
                want = {'dict': '%s == self.auth' % cred,
                        'list': '%s in self.auth' % cred,
                        'pred': 'self.auth(%s)' % cred,
                        'copred': 'await self.auth(%s)' % cred}[kind]
                ctx.check(dec is not None and U(dec) == want, construct,
                          '[%s] decided by `%s`' % (row, want),
                          key='decisive ' + kind, reason='for auth of kind '
                          '%s the decision is taken on `%s`, not on `%s`'
                          % (kind, txt(dec), want), where=w)


def handler_effects(m, fam, h):
    """mutating effects of an admin event handler (transitively over the
    admin class's own methods)"""
    A = ADMIN[fam]
    eff = set()
    seen = set()
    work = [h]
    while work:
        f = work.pop()
        if f in seen:
            continue
        seen.add(f)
        for n in walk_own(f.node):
            if not isinstance(n, ast.Call):
                continue
            t = U(n.func)
            if t == 'self.sio.emit':
                ns = [k for k in n.keywords if k.arg == 'namespace']
                if not ns or U(ns[0].value) != 'self.admin_namespace':
                    eff.add('emit')
            elif t in ('self.sio.enter_room', 'self.sio.leave_room',
                       'self.sio.disconnect', 'self.sio.close_room',
                       'self.sio.manager.enter_room',
                       'self.sio.manager.leave_room',
                       'self.sio.manager.disconnect'):
                eff.add(t.split('.')[-1])
            elif t.startswith('self.') and t.count('.') == 1:
                g = m.lookup(m.cls(A), t.split('.')[1])
                if g is not None:
                    work.append(g)
    return eff


def r2_readonly(ctx, fam):
    m = ctx.model
    A = ADMIN[fam]
    f = m.method(A, 'instrument')
    construct = A + '.instrument'
    run = run_function(f, m)
    done = set()
    n_mut = 0
    for p in run.paths:
        for e in p.calls('on'):
            if e.recv() != 'self.sio' or e.lineno in done:
                continue
            done.add(e.lineno)
            a = e.expr.args
            hname = U(a[1]) if len(a) > 1 else None
            ns = {k.arg: U(k.value) for k in e.expr.keywords}.get(
                'namespace')
            ctx.check(ns == 'self.admin_namespace', construct,
                      'handler %s registered on the admin namespace'
                      % hname, key='reg-namespace',
                      reason='%s registered on namespace %s' % (hname, ns),
                      where=where(f, e.node))
            h = m.lookup(m.cls(A), hname.split('.')[-1]) \
                if hname and hname.startswith('self.') else None
            if h is None:
                ctx.bad(construct, 'unknown-handler', 'cannot resolve '
                        'handler %s' % hname, where(f, e.node))
                continue
            eff = handler_effects(m, fam, h)
            if not eff:
                continue
            n_mut += 1
            guarded = any(c.at <= e.idx and not c.pol and
                          c.text == 'self.read_only' for c in p.conds)
            ctx.check(guarded, construct, 'registration of %s (effects: %s) '
                      'is dominated by `not self.read_only`' % (
                          hname, sorted(eff)), key='readonly ' + hname,
                      reason='in read-only mode an admin client can still '
                      'reach %s, which can %s' % (hname, sorted(eff)),
                      where=where(f, e.node))
    if n_mut < 4:
        ctx.bad(construct, 'mutating-handlers', 'fewer than the four '
                'mutating admin handlers are registered (%d)' % n_mut,
                where(f))


def wrapper_pairs(m, fam):
    """(wrapper FuncInfo, saved name) derived from instrument()"""
    A = ADMIN[fam]
    f = m.method(A, 'instrument')
    out = []
    saved = {}
    fnode = expand_aliases(f.node)
    for n in walk_own(fnode):
        if isinstance(n, ast.Assign) and \
                isinstance(n.targets[0], ast.Attribute):
            t = n.targets[0]
            if t.attr.startswith('__') and isinstance(n.value,
                                                      ast.Attribute):
                saved[(U(t.value), n.value.attr)] = t.attr
    for n in walk_own(fnode):
        if isinstance(n, ast.Assign) and \
                isinstance(n.targets[0], ast.Attribute):
            t = n.targets[0]
            key = (U(t.value), t.attr)
            if key in saved:
                v = n.value
                wname = None
                if isinstance(v, ast.Attribute) and U(v.value) == 'self':
                    wname = v.attr
                elif isinstance(v, ast.Call) and \
                        U(v.func) == 'functools.partialmethod':
                    wname = v.args[0].attr
                if wname:
                    w = m.lookup(m.cls(A), wname)
                    if w is not None:
                        out.append((w, saved[key]))
        if isinstance(n, ast.Call) and U(n.func) == 'self.sio.eio.on' and \
                len(n.args) == 2 and U(n.args[1]).startswith('self.'):
            w = m.lookup(m.cls(A), n.args[1].attr)
            if w is not None:
                out.append((w, n.args[1].attr))
    return out


def indexes_server_state(stmt):
    """statement raiser for the wrappers: indexing a table of the server or
    its manager (`self.sio.manager.rooms[namespace]`, `self.sio.environ[x]`)
    fails for a key that is not there - the instrumentation must not add
    such a failure in front of the original."""
    for n in ast.walk(stmt):
        if isinstance(n, ast.Subscript) and isinstance(n.ctx, ast.Load) and \
                U(n.value).startswith('self.sio.'):
            return {'KeyError'}
    return None


def check_wrapper(ctx, w, saved, construct):
    m = ctx.model
    run = run_function(w, m, max_iter=1, stmt_raiser=indexes_server_state)
    seen_pre = set()
    for p in run.paths:
        if p.exit == 'exc' and p.origin is not None and \
                p.origin.kind == 'stmt-fails':
            called = [e for e in p.events if e.kind == 'call' and
                      isinstance(e.expr.func, ast.Attribute) and
                      e.expr.func.attr == saved]
            if not called and p.origin.lineno not in seen_pre:
                seen_pre.add(p.origin.lineno)
                ctx.bad(construct, 'fails-before-original', 'the wrapper '
                        'indexes server state (%s) before it has called the '
                        'original %s: for a key that is not there it raises '
                        'where the uninstrumented server would not, and the '
                        'original never runs' % (
                            U(p.origin.node)[:70], saved),
                        where(w, p.origin.node))
    own = [p for p in w.params if p not in ('self', 'socket', 'ws')
           or p == 'ws' and False]
    # for partialmethod wrappers the first two params are (socket, self)
    params = list(w.params)
    if params[:2] == ['socket', 'self']:
        params = params[2:]
    elif params[:1] == ['self']:
        params = params[1:]
    elif params[:1] == ['ws']:
        params = params[1:]
    n = 0
    for p in run.paths:
        if not p.normal:
            continue
        calls = [e for e in p.events if e.kind == 'call' and
                 isinstance(e.expr.func, ast.Attribute) and
                 e.expr.func.attr == saved]
        n += 1
        ok = len(calls) == 1
        ctx.check(ok, construct, 'the saved original %s is called exactly '
                  'once on every normal path' % saved, key='once ' + saved,
                  reason='the original %s is called %d time(s) on path %s'
                  % (saved, len(calls), p.describe()[:100]), where=where(w))
        if not ok:
            continue
        e = calls[0]
        got = []
        for a in e.expr.args:
            got.append(('*' + U(a.value)) if isinstance(a, ast.Starred)
                       else U(a))
        kws = {}
        for k in e.expr.keywords:
            if k.arg is None:
                got.append('**' + U(k.value))
            else:
                kws[k.arg] = U(k.value)
        want = list(params)
        if w.vararg:
            want.append('*' + w.vararg)
        if w.kwarg:
            want.append('**' + w.kwarg)
        # keyword-passed parameters must be same-named
        pos_ok = got == [x for x in want if x not in kws]
        kw_ok = all(k == v for k, v in kws.items()) and \
            set(kws) <= set(params)
        ctx.check(pos_ok and kw_ok, construct, 'the original receives the '
                  'wrapper\'s own parameters unchanged: (%s)'
                  % ', '.join(want), key='args ' + saved,
                  reason='the original is called with (%s%s) instead of '
                  '(%s)' % (', '.join(got), ''.join(
                      ', %s=%s' % kv for kv in kws.items()),
                      ', '.join(want)), where=where(w, e.node))
        rv = strip_await(run.expand(p.value)) if p.value is not None \
            else None
        ctx.check(p.exit == 'return' and rv is not None and
                  U(rv) == U(run.expand(e.expr)), construct,
                  'the wrapper returns the original\'s result',
                  key='result ' + saved, reason='the wrapper returns %s'
                  % txt(rv), where=where(w))
        if w.is_async:
            aw = [x for x in p.events if x.kind == 'await' and
                  isinstance(x.node, ast.Await) and x.node.value is e.node]
            ctx.check(bool(aw) or saved in ('__basic_enter_room',
                                            '__basic_leave_room', '__ok'),
                      construct, 'the original coroutine is awaited',
                      key='await ' + saved, where=where(w))
    if not n:
        ctx.bad(construct, 'no-normal-path', 'wrapper never returns',
                where(w))


def r3_wrappers(ctx, fam):
    m = ctx.model
    A = ADMIN[fam]
    pairs = wrapper_pairs(m, fam)
    if len(pairs) < 10:
        raise AnalysisError('%s.instrument: only %d wrappers derived (10 '
                            'confirmed by hand)' % (A, len(pairs)))
    for w, saved in pairs:
        check_wrapper(ctx, w, saved, '%s.%s' % (A, w.name))
    # nested websocket send/wait wrappers
    ws = m.method(A, '_eio_websocket_handler')
    for name, saved in (('_send', '__send'), ('_wait', '__wait')):
        if name in ws.nested and isinstance(ws.nested[name], FuncInfo):
            check_wrapper(ctx, ws.nested[name], saved,
                          '%s._eio_websocket_handler.%s' % (A, name))
        else:
            ctx.bad('%s._eio_websocket_handler' % A, 'nested ' + name,
                    'nested wrapper %s is gone' % name, where(ws))
    ctx.extra.setdefault('wrappers', {})[A] = [w.name for w, _ in pairs]


def r4_admin_only(ctx, fam):
    m = ctx.model
    A = ADMIN[fam]
    c = m.cls(A)
    n = 0
    for f in m.funcs:
        owner = f
        while owner.cls is None and owner.parent is not None:
            owner = owner.parent
        if owner.cls is not c:
            continue
        for node in walk_own(f.node):
            if isinstance(node, ast.Call) and U(node.func) == 'self.sio.emit':
                if owner.name == 'admin_emit':
                    continue
                n += 1
                ns = [k for k in node.keywords if k.arg == 'namespace']
                ctx.check(bool(ns) and
                          U(ns[0].value) == 'self.admin_namespace',
                          '%s.%s' % (A, owner.name), 'instrumentation emits '
                          'on the admin namespace only', key='emit-ns',
                          reason='the instrumentation emits %s outside the '
                          'admin namespace' % U(node)[:60],
                          where=where(f, node))
    if n < 8:
        raise AnalysisError('%s: only %d emit sites found' % (A, n))


def _tolerated(fnode, node):
    """is `node` inside a try body whose handlers catch KeyError?"""
    for t in ast.walk(fnode):
        if isinstance(t, ast.Try) and any(
                node is x for b in t.body for x in ast.walk(b)):
            for h in t.handlers:
                names = [U(h.type)] if h.type is not None and not \
                    isinstance(h.type, ast.Tuple) else \
                    [U(x) for x in h.type.elts] if h.type is not None else \
                    ['BaseException']
                if set(names) & {'KeyError', 'LookupError', 'Exception',
                                 'BaseException'}:
                    return True
    return False


def r5_own_tables(ctx, fam):
    m = ctx.model
    A = ADMIN[fam]
    f = m.method(A, 'instrument')
    tables = []
    for n in walk_own(expand_aliases(f.node)):
        if isinstance(n, ast.Assign) and isinstance(n.value, ast.Dict) and \
                not n.value.keys:
            for t in n.targets:
                if isinstance(t, ast.Attribute) and \
                        U(t).startswith('self.sio.'):
                    tables.append(U(t))
    if not tables:
        raise AnalysisError('%s.instrument: no instrumentation table found '
                            '(_timestamps confirmed by hand)' % A)
    pairs = wrapper_pairs(m, fam)
    runs = [(w, saved, run_function(w, m, max_iter=1)) for w, saved in pairs]
    for T in tables:
        hard = []
        for w, saved, run in runs:
            for p in run.paths:
                for e in p.events:
                    if e.kind == 'del' and \
                            U(run.expand(e.expr)).startswith(T + '['):
                        if not _tolerated(w.node, e.node):
                            hard.append((w, e))
        seen = {id(e.node): (w, e) for w, e in hard}
        ctx.info('%s: table %s, %d unconditional deletion site(s)'
                 % (A, T, len(seen)))
        ctx.check(True, '%s.instrument' % A, 'instrumentation table %s '
                  'derived; %d unconditional deletion site(s) in the '
                  'wrappers' % (T, len(seen)), key='table ' + T,
                  where=where(f))
        if not seen:
            continue
        n = 0
        for w, saved, run in runs:
            construct = '%s.%s' % (A, w.name)
            for p in run.paths:
                if not p.normal:
                    continue
                st = [e for e in p.events if e.kind == 'store' and
                      U(run.expand(e.expr)).startswith(T + '[')]
                orig = [e for e in p.events if e.kind == 'call' and
                        isinstance(e.expr.func, ast.Attribute) and
                        e.expr.func.attr == saved]
                if not st or not orig:
                    continue
                n += 1
                ctx.check(st[0].idx < orig[0].idx, construct, '%s is filled '
                          'before the original %s runs' % (T, saved),
                          key='fill-before-original ' + T,
                          reason='%s[...] is filled (line %d) only after the '
                          'original %s has run (line %d); application code '
                          'inside it that ends the client enters the arm '
                          'that deletes the entry unconditionally (line %d) '
                          'and the wrapper raises KeyError instead of '
                          'running the application\'s handler'
                          % (T, st[0].lineno, saved, orig[0].lineno,
                             list(seen.values())[0][1].lineno),
                          where=where(w, st[0].node))
        if not n:
            ctx.bad('%s.instrument' % A, 'table-never-filled ' + T,
                    '%s is deleted from but no wrapper path fills it' % T,
                    where(f))


def r7_no_user_data(ctx, fam):
    """what the instrumentation reports is made of identifiers, names,
    counters and timestamps it produced itself.  It never reads the user
    sessions (application-owned, possibly not serialisable objects): handing
    them to an emit on the admin namespace - which is issued BEFORE the
    wrappers delegate - makes the application client's processing fail with
    the encoder's TypeError whenever an admin is connected (and shows one
    client's session to the admin)."""
    m = ctx.model
    A = ADMIN[fam]
    c = m.cls(A)
    n = 0
    for f in m.funcs:
        owner = f
        while owner.cls is None and owner.parent is not None:
            owner = owner.parent
        if owner.cls is not c:
            continue
        n += 1
        bad = None
        for node in walk_own(f.node):
            if isinstance(node, ast.Attribute) and node.attr in (
                    'session', 'get_session', 'save_session') and \
                    U(node.value) != 'self':
                bad = node
        ctx.check(bad is None, '%s.%s' % (A, owner.name), 'does not touch '
                  'user sessions', key='reads-session', reason='the '
                  'instrumentation reads %s: application-owned objects end '
                  'up in an admin emit that precedes the delegated work'
                  % (U(bad)[:50] if bad is not None else ''),
                  where=where(f, bad) if bad is not None else where(f))
    if n < 10:
        raise AnalysisError(A + ': only %d functions scanned' % n)


def r6_instrument_forwarding(ctx, fam):
    """Server.instrument hands each of its parameters (auth, mode, read_only,
    ...) to the same-named parameter of the instrumentation: a dropped
    `read_only` or `auth` silently yields a writable / differently guarded
    admin endpoint."""
    m = ctx.model
    S = {'sync': 'Server', 'async': 'AsyncServer'}[fam]
    A = ADMIN[fam]
    f = m.method(S, 'instrument')
    init = m.method(A, '__init__')
    construct = S + '.instrument'
    calls = [c for c in walk_own(f.node) if isinstance(c, ast.Call) and
             U(c.func).split('.')[-1] == A]
    ctx.check(len(calls) == 1, construct, 'constructs the instrumentation '
              'once', key='instrument-ctor', where=where(f))
    for c in calls:
        b = bind_call(c, init)
        got = {k: txt(v) for k, v in b.args.items()}
        want = {p: p for p in f.params[1:]}
        want[init.params[1]] = 'self'
        bad = {k: got.get(k) for k in want if got.get(k) != want[k]}
        ctx.check(not bad and not b.errors, construct, 'every parameter of '
                  'instrument() reaches the same-named parameter of %s' % A,
                  key='instrument-forward', reason='%s receives %s' % (
                      A, bad or b.errors), where=where(f, c))
        rets = [r for r in walk_own(f.node) if isinstance(r, ast.Return)]
        ctx.check(any(r.value is c for r in rets), construct, 'returns the '
                  'instrumentation object', key='instrument-return',
                  where=where(f, c))


def run(ctx):
    ctx.rule('C18.R8', 'the refusal raised by the admin connect handler is '
             'the package\'s ConnectionRefusedError (the class the server\'s '
             'connect path catches), not the builtin of the same name',
             floor=0)
    from .common import exception_identity
    exception_identity(ctx, ('admin', 'async_admin'), 'C18.R8')
    ctx.rule('C18.R7', 'the instrumentation never reads user sessions',
             floor=20)
    for fam in SA:
        r7_no_user_data(ctx, fam)
    ctx.rule('C18.R6', 'instrument() forwards its configuration (auth, mode, '
             'read_only, ...) parameter by parameter', floor=6)
    for fam in SA:
        r6_instrument_forwarding(ctx, fam)
    ctx.rule('C18.R1', 'credential decision table: auth kind x match',
             floor=16)
    for fam in SA:
        r1_credentials(ctx, fam)
    ctx.rule('C18.R2', 'read-only gating of mutating admin handlers; '
             'registrations on the admin namespace', floor=18)
    for fam in SA:
        r2_readonly(ctx, fam)
    ctx.rule('C18.R3', 'wrappers delegate unchanged (derived from the '
             'save/replace pairs of instrument())', floor=60)
    for fam in SA:
        r3_wrappers(ctx, fam)
    ctx.rule('C18.R4', 'instrumentation emits only on the admin namespace',
             floor=16)
    for fam in SA:
        r4_admin_only(ctx, fam)
    ctx.rule('C18.R5', 'instrumentation tables are filled before the '
             'original runs (the deleting arm cannot fail in front of the '
             'application)', floor=2)
    for fam in SA:
        r5_own_tables(ctx, fam)
    ctx.rule('C04.R9', 'the gate is enforced by the server\'s connect path: a '
             'refusal raised by admin_connect is contained and handled as a '
             'refusal, and a handler that failed (predicate raising on a '
             'malformed payload) has not accepted the client (shared rule)',
             floor=4)
    from .c04 import r9_refusal_contained
    for fam in SA:
        r9_refusal_contained(ctx, fam)
    ctx.assume('dict/list equality of Python decides "equals the configured '
               'credentials" (type-confused payloads compare unequal)')
    ctx.assume('timing and failures inside the instrumentation are NOT '
               'decided')
