"""C03 - rooms: an emit reaches exactly the addressed members, once each.
The exact recipient set over all histories is NOT decided (bidict semantics
over unbounded histories); the structural necessary conditions are.

R1 recipient filter: every hand-off to the transport in Manager.emit /
   AsyncManager.emit is inside the loop over get_participants(namespace,
   to or room), addressed to that iteration's transport id and guarded by
   `sid not in skip_sid` for that iteration's sid; skip_sid is a list.
R2 namespace key discipline: every first-level index of `rooms` in
   BaseManager is the function's own namespace parameter.
R3 ownership: `rooms` is written only by BaseManager.__init__,
   basic_enter_room and basic_leave_room, package-wide.
R4 each emit layer resolves the addressee as `to or room`.
R5 membership lifecycle: basic_disconnect leaves every room that contains
   the sid (membership is the only filter); basic_close_room leaves the
   closed room for every participant; get_rooms hides only room None.
R6 recipients are accumulated in a mapping keyed by sid (copy / update /
   items): a client in several addressed rooms is delivered to once.
"""
import ast

from ..model import AnalysisError
from ..sym import U, is_const, Run, run_function
from ..util import (bind_call, strip_await, where, SA, SERVER, MANAGER,
                    PUBSUB, walk_own)
from .common import txt


def r1_filter(ctx, fam):
    m = ctx.model
    M = MANAGER[fam]
    f = m.method(M, 'emit')
    construct = M + '.emit'
    run = run_function(f, m, max_iter=1)
    n = 0
    for p in run.paths:
        if not p.normal:
            continue
        for e in p.events:
            if e.kind != 'call' or e.callee() not in ('_send_eio_packet',
                                                      '_send_packet'):
                continue
            if not U(e.expr.func.value).endswith('server'):
                continue
            n += 1
            tgt = run.sym_of(e.expr.args[0])
            inloop = tgt is not None and tgt['kind'] == 'loopvar' and \
                tgt.get('index') == 1 and \
                U(strip_await(tgt['expr'])).startswith(
                    'self.get_participants(')
            ctx.check(inloop, construct, 'the packet is handed to the '
                      'transport id of the current participant',
                      key='recipient', reason='%s addressed to %s, not to '
                      'the loop\'s transport id' % (e.callee(),
                                                    U(e.expr.args[0])),
                      where=where(f, e.node))
            if not inloop:
                continue
            gp = strip_await(tgt['expr'])
            b = bind_call(gp, m.method('BaseManager', 'get_participants'))
            ctx.check(U(b.get('namespace')) == 'namespace' and
                      U(run.expand(b.get('room'))) == 'to or room',
                      construct, 'participants of (own namespace, to or '
                      'room)', key='participants-args',
                      reason='recipients are get_participants(%s, %s)' % (
                          txt(b.get('namespace')),
                          txt(run.expand(b.get('room')))),
                      where=where(f, e.node))
            # guard: sid(loopvar 0 of same iteration) not in skip_sid
            good = False
            for c in p.conds:
                if c.at > e.idx or c.pol:
                    continue
                a = c.atom
                if isinstance(a, ast.Compare) and \
                        isinstance(a.ops[0], ast.In):
                    l = run.sym_of(a.left)
                    r = U(run.expand(a.comparators[0]))
                    if l is not None and l['kind'] == 'loopvar' and \
                            l.get('index') == 0 and \
                            l['node'] is tgt['node'] and \
                            l.get('iteration') == tgt.get('iteration') and \
                            r in ('skip_sid', '[skip_sid]'):
                        good = True
                        islist = [x for x in p.conds
                                  if U(run.expand(x.atom)) ==
                                  'isinstance(skip_sid, list)']
                        ctx.check(bool(islist) and
                                  (r == 'skip_sid') == islist[0].pol,
                                  construct, 'skip_sid is normalised to a '
                                  'list before the loop', key='skip-list',
                                  reason='membership is tested against %s '
                                  'without list normalisation' % r,
                                  where=where(f, e.node))
            ctx.check(good, construct, 'send guarded by `sid not in '
                      'skip_sid` for the same participant', key='skip-guard',
                      reason='a participant named in skip_sid still '
                      'receives the packet (%s branch)' % (
                          'callback' if e.callee() == '_send_packet'
                          else 'broadcast'), where=where(f, e.node))
    if n < 2:
        ctx.bad(construct, 'no-sends', 'emit has fewer than two send sites '
                'in the participant loop', where(f))


def r2_keys(ctx):
    m = ctx.model
    c = m.cls('BaseManager')
    n = 0
    for f in c.methods.values():
        for node in walk_own(f.node):
            key = None
            if isinstance(node, ast.Subscript) and \
                    U(node.value) == 'self.rooms':
                key = node.slice
            elif isinstance(node, ast.Call) and \
                    U(node.func) == 'self.rooms.get' and node.args:
                key = node.args[0]
            elif isinstance(node, ast.Compare) and \
                    isinstance(node.ops[0], (ast.In, ast.NotIn)) and \
                    U(node.comparators[0]) == 'self.rooms':
                key = node.left
            if key is None:
                continue
            n += 1
            ctx.check(isinstance(key, ast.Name) and key.id == 'namespace'
                      and 'namespace' in f.params, 'BaseManager.' + f.name,
                      'rooms is indexed by the function\'s namespace '
                      'parameter', key='ns-key', reason='rooms indexed by '
                      '%s' % U(key), where=where(f, node))
    if n < 15:
        raise AnalysisError('C03.R2 found only %d first-level accesses of '
                            'rooms (21 confirmed by hand)' % n)


MUTATORS = ('pop', 'clear', 'update', 'setdefault', 'popitem', '__setitem__',
            '__delitem__')


def r3_ownership(ctx):
    m = ctx.model
    owners = {'__init__', 'basic_enter_room', 'basic_leave_room'}
    n = 0
    for f in m.funcs:
        for node in walk_own(f.node):
            hit = None
            tg = []
            if isinstance(node, ast.Assign):
                tg = node.targets
            elif isinstance(node, (ast.AugAssign, ast.AnnAssign)):
                tg = [node.target]
            elif isinstance(node, ast.Delete):
                tg = node.targets
            for t in tg:
                x = t
                while isinstance(x, ast.Subscript):
                    x = x.value
                if isinstance(x, ast.Attribute) and x.attr == 'rooms' and \
                        U(x.value) in ('self', 'self.manager',
                                       'self.sio.manager',
                                       'self.server.manager'):
                    hit = 'writes ' + U(t)
            if isinstance(node, ast.Call) and \
                    isinstance(node.func, ast.Attribute) and \
                    node.func.attr in MUTATORS:
                x = node.func.value
                while isinstance(x, ast.Subscript):
                    x = x.value
                if isinstance(x, ast.Attribute) and x.attr == 'rooms' and \
                        U(x.value).startswith('self'):
                    hit = 'calls ' + U(node.func)
            if hit is None:
                continue
            n += 1
            is_owner = f.cls is not None and f.cls.name == 'BaseManager' \
                and f.name in owners
            ctx.check(is_owner, f.qualname, 'rooms mutated only by '
                      'BaseManager.__init__/basic_enter_room/'
                      'basic_leave_room', key='foreign-mutation',
                      reason='%s %s' % (f.qualname, hit),
                      where=where(f, node))
    if n < 5:
        raise AnalysisError('C03.R3 found only %d writes of rooms' % n)


def r4_to_or_room(ctx, fam):
    m = ctx.model
    S = SERVER[fam]
    f = m.method(S, 'emit')
    run = run_function(f, m)
    for p in run.paths:
        for e in p.calls('emit'):
            if e.recv() != 'self.manager':
                continue
            b = bind_call(e.expr, m.method(MANAGER[fam], 'emit'))
            ctx.check(U(run.expand(b.get('room'))) == 'to or room' and
                      b.get('to') is None and
                      U(run.expand(b.get('namespace'))) ==
                      "namespace or '/'" and
                      U(b.get('skip_sid')) == 'skip_sid', S + '.emit',
                      'passes room = to or room, skip_sid and the '
                      'normalised namespace to the manager', key='server-room',
                      reason='manager.emit gets room=%s skip_sid=%s '
                      'namespace=%s' % (txt(run.expand(b.get('room'))),
                                        txt(b.get('skip_sid')),
                                        txt(run.expand(b.get('namespace')))),
                      where=where(f, e.node))
    for cname in (MANAGER[fam], PUBSUB[fam]):
        g = m.own_method(cname, 'emit')
        first = [n for n in walk_own(g.node) if isinstance(n, ast.Assign) and
                 U(n.targets[0]) == 'room']
        ctx.check(bool(first) and U(first[0].value) == 'to or room',
                  cname + '.emit', 'resolves the addressee as `to or room`',
                  key='layer-room', reason='room is %s' % (
                      U(first[0].value) if first else 'never resolved'),
                  where=where(g))


def r5_lifecycle(ctx):
    m = ctx.model
    f = m.method('BaseManager', 'basic_disconnect')
    construct = 'BaseManager.basic_disconnect'
    sid, ns = f.params[1:3]
    run = run_function(f, m, max_iter=2)
    n = 0
    for p in run.paths:
        if not p.normal:
            continue
        for e in p.calls('basic_leave_room'):
            n += 1
            b = bind_call(e.expr, m.method('BaseManager', 'basic_leave_room'))
            rm = run.sym_of(b.get('room'))
            good = U(b.get('sid')) == sid and U(b.get('namespace')) == ns \
                and rm is not None and rm['kind'] == 'loopvar'
            ctx.check(good, construct, 'leaves (sid, namespace, <each '
                      'collected room>)', key='leave-args',
                      reason='basic_leave_room(%s)' % U(e.expr),
                      where=where(f, e.node))
        # the collection loop: iterate all rooms of the namespace, filter
        # only on membership
        its = [e for e in p.events if e.kind == 'iter']
        if its:
            src = U(run.expand(its[0].expr))
            ctx.check('self.rooms[%s]' % ns in src and 'items()' in src,
                      construct, 'iterates every room of the namespace',
                      key='all-rooms', reason='collection loop iterates %s'
                      % src, where=where(f))
        for c in p.conds:
            a = c.atom
            if isinstance(a, ast.Compare) and isinstance(a.ops[0], ast.In) \
                    and U(a.left) == sid:
                r = run.sym_of(a.comparators[0])
                if r is not None and r['kind'] == 'loopvar':
                    continue
            t = U(run.expand(a))
            if t in ('%s in self.rooms' % ns, '%s in self.callbacks' % sid,
                     '%s in self.pending_disconnect' % ns,
                     '%s in self.pending_disconnect[%s]' % (sid, ns),
                     'len(self.pending_disconnect[%s]) == 0' % ns):
                continue
            ctx.bad(construct, 'extra-filter ' + t, 'an additional '
                    'condition (%s) filters which rooms are left' % t,
                    where(f))
    if not n:
        ctx.bad(construct, 'no-leave', 'disconnect no longer leaves rooms',
                where(f))
    # the list the leave loop walks is fed: a local that starts as [] and is
    # iterated by the loop that leaves rooms receives the collected names
    for lp in walk_own(f.node):
        if isinstance(lp, ast.For) and isinstance(lp.iter, ast.Name) and any(
                isinstance(c, ast.Call) and U(c.func).endswith(
                    'basic_leave_room') for c in ast.walk(lp)):
            nm = lp.iter.id
            init_empty = any(
                isinstance(a, ast.Assign) and U(a.targets[0]) == nm and
                isinstance(a.value, ast.List) and not a.value.elts
                for a in walk_own(f.node))
            fed = any(isinstance(c, ast.Call) and
                      isinstance(c.func, ast.Attribute) and
                      c.func.attr in ('append', 'extend', 'add') and
                      U(c.func.value) == nm for c in walk_own(f.node)) or \
                any(isinstance(a, (ast.AugAssign,)) and U(a.target) == nm
                    for a in walk_own(f.node))
            ctx.check(fed or not init_empty, construct, 'the collected room '
                      'names reach the loop that leaves them',
                      key='collect-fed', reason='the leave loop walks `%s`, '
                      'which starts empty and is never appended to: a '
                      'disconnecting client leaves no room at all' % nm,
                      where=where(f, lp))
    # appended names are the iterated room names
    apps = [c for c in walk_own(f.node) if isinstance(c, ast.Call) and
            isinstance(c.func, ast.Attribute) and c.func.attr == 'append' and
            U(c.func.value) not in ('self.pending_disconnect[%s]' % ns,)]
    for a in apps:
        loops = [l for l in walk_own(f.node) if isinstance(l, ast.For) and
                 a in list(ast.walk(l))]
        good = loops and isinstance(loops[0].target, ast.Tuple) and \
            U(a.args[0]) == U(loops[0].target.elts[0])
        ctx.check(good, construct, 'collects the name of the iterated room',
                  key='collect-name', where=where(f, a))
    # close_room
    f = m.method('BaseManager', 'basic_close_room')
    construct = 'BaseManager.basic_close_room'
    room, ns = f.params[1:3]
    run = run_function(f, m, max_iter=2)
    n = 0
    for p in run.paths:
        for e in p.calls('basic_leave_room'):
            n += 1
            b = bind_call(e.expr, m.method('BaseManager', 'basic_leave_room'))
            s = run.sym_of(b.get('sid'))
            good = s is not None and s['kind'] == 'loopvar' and \
                s.get('index') == 0 and \
                U(s['expr']) == 'self.get_participants(%s, %s)' % (ns, room) \
                and U(b.get('namespace')) == ns and U(b.get('room')) == room
            ctx.check(good, construct, 'every participant of the closed '
                      'room leaves that room', key='close-args',
                      reason='basic_leave_room(%s)' % U(e.expr),
                      where=where(f, e.node))
    for l in walk_own(f.node):
        if isinstance(l, ast.For):
            for s in ast.walk(l):
                if isinstance(s, (ast.Break, ast.Return, ast.Continue)):
                    ctx.bad(construct, 'early-exit', 'the participant loop '
                            'can stop early', where(f, s))
    if not n:
        ctx.bad(construct, 'no-leave', 'close_room no longer removes the '
                'members', where(f))
    # get_rooms
    f = m.method('BaseManager', 'get_rooms')
    construct = 'BaseManager.get_rooms'
    sid, ns = f.params[1:3]
    run = run_function(f, m, max_iter=1)
    seen = False
    for p in run.paths:
        for e in p.calls('append'):
            seen = True
            cs = [U(run.expand(c.atom)) for c in p.conds
                  if c.at <= e.idx]
            lv = run.sym_of(e.expr.args[0])
            ok = lv is not None and lv['kind'] == 'loopvar' and \
                lv.get('index') == 0 and len(cs) == 2
            ctx.check(ok, construct, 'reports every room that contains the '
                      'sid except room None', key='rooms-filter',
                      reason='get_rooms filters on %s' % cs,
                      where=where(f, e.node))
    if not seen:
        ctx.bad(construct, 'no-append', 'get_rooms reports nothing',
                where(f))


def r7_leave_exact(ctx):
    """basic_leave_room removes exactly the leaving sid: a whole room (or
    namespace) is deleted only on a path where the sid itself was removed
    first and the container was then found empty - never as a shortcut that
    could evict other members."""
    m = ctx.model
    f = m.method('BaseManager', 'basic_leave_room')
    construct = 'BaseManager.basic_leave_room'
    sid, ns, room = f.params[1:4]
    t_room = 'self.rooms[%s][%s]' % (ns, room)
    t_ns = 'self.rooms[%s]' % ns
    run = run_function(f, m)
    n = 0
    for p in run.paths:
        if not p.normal:
            continue
        removed = [e for e in p.events if
                   (e.kind == 'del' and U(run.expand(e.expr)) ==
                    '%s[%s]' % (t_room, sid)) or
                   (e.kind == 'call' and e.callee() == 'pop' and
                    U(run.expand(e.expr)).startswith(
                        '%s.pop(%s' % (t_room, sid)))]
        for e in p.events:
            if e.kind != 'del':
                continue
            tgt = U(run.expand(e.expr))
            if tgt not in (t_room, t_ns):
                continue
            n += 1
            empt = [c for c in p.conds if c.at <= e.idx and (
                (c.pol and U(run.expand(c.atom)) == 'len(%s) == 0' % tgt) or
                (not c.pol and U(run.expand(c.atom)) in (
                    tgt, 'len(%s)' % tgt, '0 < len(%s)' % tgt)))]
            ok = bool(removed) and removed[0].idx < e.idx and bool(empt) \
                and empt[-1].at > removed[0].idx
            ctx.check(ok, construct, '%s is deleted only after the leaving '
                      'sid was removed and the container was then found '
                      'empty' % tgt, key='evicts ' + ('room' if tgt == t_room
                                                      else 'namespace'),
                      reason='%s can be deleted %s: members other than the '
                      'leaving sid would be evicted' % (
                          tgt, 'without the sid having been removed first'
                          if not removed else 'without an emptiness test '
                          'after the removal'), where=where(f, e.node))
    if not n:
        ctx.bad(construct, 'no-collection', 'rooms are never collected',
                where(f))


def r6_accumulator(ctx):
    m = ctx.model
    f = m.method('BaseManager', 'get_participants')
    construct = 'BaseManager.get_participants'
    run = run_function(f, m, max_iter=1)
    n = 0
    for p in run.paths:
        if not p.normal:
            continue
        ys = [e for e in p.events if e.kind == 'yield']
        ctx.check(len(ys) == 1 and ys[0].extra == 'from', construct,
                  'yields from one accumulated mapping', key='yield',
                  where=where(f))
        for y in ys:
            n += 1
            v = run.expand(y.expr)
            good = isinstance(v, ast.Call) and \
                isinstance(v.func, ast.Attribute) and v.func.attr == 'items'
            acc = v.func.value if good else None
            src = U(acc) if acc is not None else ''
            good = good and (src.endswith('._fwdm.copy()') or src == '{}' or
                             src.endswith('.copy()'))
            ctx.check(good, construct, 'recipients come from a mapping '
                      '(copy of a room or {}) through .items()',
                      key='mapping', reason='recipients are yielded from %s'
                      % U(v)[:80], where=where(f))
        for e in p.events:
            if e.kind == 'call' and e.callee() in ('append', 'extend',
                                                   'chain', 'insert'):
                ctx.bad(construct, 'list-accumulator', 'recipients are '
                        'accumulated in a sequence (%s): a client in two '
                        'addressed rooms would be delivered to twice'
                        % U(e.expr)[:60], where(f, e.node))
            if e.kind == 'call' and e.callee() == 'update':
                a = U(run.expand(e.expr.args[0]))
                ctx.check('_fwdm' in a or a == '{}', construct, 'further '
                          'rooms are merged with .update(<mapping>)',
                          key='update', where=where(f, e.node))
    # every addressed room is visited: constant indexes into the room list
    # form the split (first room, the rest) = ([0], [1:])
    room_p = f.params[2]
    idx = []
    for n_ in walk_own(f.node):
        if isinstance(n_, ast.Subscript) and U(n_.value) == room_p:
            sl = n_.slice
            if isinstance(sl, ast.Constant):
                idx.append(('item', sl.value, n_))
            elif isinstance(sl, ast.Slice):
                idx.append(('slice', (U(sl.lower) if sl.lower else None,
                                      U(sl.upper) if sl.upper else None),
                            n_))
    items = {v for k, v, _ in idx if k == 'item'}
    slices = {v for k, v, _ in idx if k == 'slice'}
    if idx:
        ctx.check(items <= {0} and slices <= {('1', None)} and
                  (not items or slices), construct, 'a list of rooms is '
                  'split into its first element and the rest: every listed '
                  'room contributes its members', key='room-split',
                  reason='the room list is indexed with %s / sliced with %s: '
                  'a listed room is skipped or counted from the wrong '
                  'position' % (sorted(items), sorted(slices)),
                  where=where(f, idx[0][2]))
    # room lookup is by the function's namespace and the given room(s)
    first = [n_ for n_ in walk_own(f.node) if isinstance(n_, ast.Assign) and
             U(n_.targets[0]) == 'ns']
    ctx.check(bool(first) and U(first[0].value) ==
              'self.rooms.get(%s, {})' % f.params[1], construct,
              'rooms are looked up in the given namespace only',
              key='ns-lookup', where=where(f))
    if not n:
        ctx.bad(construct, 'no-yield', 'nothing yielded', where(f))


def run(ctx):
    ctx.rule('C03.R1', 'recipient filter: loop over participants, own '
             'transport id, skip_sid guard', floor=10)
    for fam in SA:
        r1_filter(ctx, fam)
    ctx.rule('C03.R2', 'namespace key discipline on rooms', floor=15)
    r2_keys(ctx)
    ctx.rule('C03.R3', 'ownership of rooms', floor=5)
    r3_ownership(ctx)
    ctx.rule('C03.R4', 'addressee resolved as `to or room` at each layer',
             floor=6)
    for fam in SA:
        r4_to_or_room(ctx, fam)
    ctx.rule('C03.R5', 'membership lifecycle: disconnect leaves every room '
             'holding the sid, close_room empties the room, get_rooms hides '
             'only room None', floor=6)
    r5_lifecycle(ctx)
    ctx.rule('C03.R6', 'recipients accumulated in a mapping keyed by sid',
             floor=3)
    r6_accumulator(ctx)
    ctx.rule('C03.R7', 'leaving a room removes exactly the leaving sid; '
             'containers are deleted only when found empty afterwards',
             floor=2)
    r7_leave_exact(ctx)
    ctx.rule('C04.R4', 'a refused connection keeps no membership (it would '
             'go on receiving broadcasts): refusal packet then release on '
             'every refusing path of _handle_connect, for both settings of '
             'always_connect (shared rule)', floor=20)
    from .c04 import r4_connect
    for fam in SA:
        r4_connect(ctx, fam)
    ctx.rule('C11.R2', 'a transport that ends leaves every namespace: a '
             'failing disconnect handler of one namespace is contained '
             'inside the loop, the mark is followed by the release on every '
             'exit - a namespace that is skipped keeps the departed client '
             'in its rooms and goes on delivering to it (shared rule)',
             floor=6)
    from .c11 import r2_exception_safe
    for fam in SA:
        r2_exception_safe(ctx, fam)
    ctx.assume('bidict keeps sid <-> transport id one-to-one (trusted)')
    ctx.assume('the exact recipient set over all membership histories is '
               'NOT decided')
