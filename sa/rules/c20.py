"""C20 - threaded server: concurrent terminations of one client are safe.

Decided as lock discipline, not as schedule exploration.
R1 in Server.disconnect and Server._handle_disconnect the connected-test and
   the pre_disconnect mark (which read and write pending_disconnect / rooms)
   execute under one common lock: either one `with <lock>` around both, or a
   single manager method that performs test and mark under its own lock and
   whose result gates the caller.
"""
import ast

from ..model import AnalysisError
from ..sym import U, is_const, run_function
from ..util import where, strip_await, walk_own
from .c04 import gate_call, GATE_NAMES


def lock_attrs(m):
    """attribute names assigned from threading.Lock/RLock()/create_lock()"""
    out = set()
    for f in m.funcs:
        for n in walk_own(f.node):
            if isinstance(n, ast.Assign) and isinstance(n.value, ast.Call):
                fn = U(n.value.func)
                if fn.split('.')[-1] in ('Lock', 'RLock', 'create_lock') and \
                        'asyncio' not in fn:
                    for t in n.targets:
                        if isinstance(t, ast.Attribute):
                            out.add(t.attr)
    return out


def held_locks(ev, locks):
    return {h for h in ev.held if h.split('.')[-1] in locks}


def atomic_test_and_mark(m, f, call_node, locks):
    """second accepted form: the gate call resolves to manager methods that
    do test and mark under one lock of their own"""
    kind, tg = m.resolve_call(f, call_node)
    if kind != 'internal' or not tg:
        return False
    for t in tg:
        run = run_function(t, m)
        ok_any = False
        for p in run.paths:
            tests = [e for e in p.events if e.kind == 'call' and
                     e.callee() == 'is_connected']
            marks = [e for e in p.events if
                     (e.kind == 'call' and e.callee() in ('pre_disconnect',
                                                          'append') and
                      'pending_disconnect' in U(e.expr)) or
                     (e.kind == 'call' and e.callee() == 'pre_disconnect')]
            if tests and marks:
                if held_locks(tests[-1], locks) & held_locks(marks[0],
                                                             locks):
                    ok_any = True
                else:
                    return False
        if not ok_any:
            return False
    return True


def run(ctx):
    m = ctx.model
    ctx.rule('C20.R1', 'threaded server: connected-test and pre_disconnect '
             'mark under one common lock', floor=2)
    locks = lock_attrs(m)
    ctx.extra['lock_attributes_in_package'] = sorted(locks)
    for fname in ('disconnect', '_handle_disconnect'):
        f = m.method('Server', fname)
        construct = 'Server.' + fname
        run = run_function(f, m)
        verdict = None
        for p in run.paths:
            marks = [e for e in p.calls('pre_disconnect')
                     if e.recv() == 'self.manager']
            if not marks:
                continue
            mark = marks[0]
            tests = [e for e in p.events[:mark.idx] if e.kind == 'call' and
                     e.callee() in GATE_NAMES and e.recv() == 'self.manager']
            if not tests:
                # maybe an atomic test-and-mark method gates the path
                continue
            test = tests[-1]
            common = held_locks(test, locks) & held_locks(mark, locks)
            ok = bool(common)
            if verdict is None or not ok:
                verdict = (ok, test, mark)
        if verdict is None:
            # no separate test+mark: accepted only when the gate is an atomic
            # manager method
            gates = []
            for p in run.paths:
                for c in p.conds:
                    a = strip_await(run.expand(c.atom))
                    if c.pol and isinstance(a, ast.Call) and \
                            U(a.func).startswith('self.manager.'):
                        for e in p.events:
                            if e.kind == 'call' and U(e.expr) == U(a):
                                gates.append(e)
            ok = bool(gates) and all(atomic_test_and_mark(m, f, g.node, locks)
                                     for g in gates)
            ctx.check(ok, construct, 'test-and-mark performed atomically by '
                      'one manager method under its lock',
                      key='test and mark share no lock',
                      reason='no connected-test/mark pair and no atomic '
                      'test-and-mark method found', where=where(f))
            continue
        ok, test, mark = verdict
        partial = held_locks(test, locks) | held_locks(mark, locks)
        ctx.check(ok, construct, 'connected-test (line %d) and '
                  'pre_disconnect (line %d) share a lock'
                  % (test.lineno, mark.lineno),
                  key='test and mark share no lock' if not partial else
                  'a lock is taken (%s) but it does not cover both the test '
                  'and the mark' % sorted(partial),
                  reason='two threads ending the same client can both pass '
                  'the connected-test at line %d before either marks it at '
                  'line %d: no common lock is held (locks in the package: '
                  '%s)' % (test.lineno, mark.lineno, sorted(locks) or 'none'),
                  where=where(f, test.node))
    # R7: ... and the readers look at the mark FIRST.  basic_disconnect
    # removes the membership, then the mark; a reader that finds the
    # membership, is overtaken by that clean-up and then finds no mark
    # answers "connected" for a client that is gone (the second terminating
    # thread runs the handler again / KeyError in the release)
    ctx.rule('C20.R7', 'is_connected reads the disconnecting mark before the '
             'membership (reader order matches the writer order of C20.R2)',
             floor=1)
    g = m.method('BaseManager', 'is_connected')

    def reads(fn, attr, depth=0):
        out = []
        for x in walk_own(fn.node):
            if isinstance(x, ast.Attribute) and U(x) == 'self.' + attr:
                out.append(x)
            elif depth < 2 and isinstance(x, ast.Call) and \
                    isinstance(x.func, ast.Attribute) and \
                    U(x.func.value) == 'self':
                kind, tg = m.resolve_call(fn, x)
                if any(reads(t, attr, depth + 1) for t in tg):
                    out.append(x)
        return out
    pend = reads(g, 'pending_disconnect')
    rooms = reads(g, 'rooms')
    if not pend or not rooms:
        ctx.bad('BaseManager.is_connected', 'reads', 'is_connected does not '
                'read both the mark and the membership', where(g), )
    else:
        first = lambda xs: min((x.lineno, x.col_offset) for x in xs)  # noqa
        ctx.check(first(pend) < first(rooms), 'BaseManager.is_connected',
                  'the mark is read before the membership',
                  key='membership read before the mark', reason='is_connected '
                  'looks the client up in the rooms (line %d) before it '
                  'reads pending_disconnect (line %d): basic_disconnect '
                  'removes the membership first and the mark last, so a '
                  'terminating thread that is overtaken between the two '
                  'reads sees a member without a mark and terminates the '
                  'client a second time' % (first(rooms)[0], first(pend)[0]),
                  where=where(g))
    # R2: the mark outlives the membership
    ctx.rule('C20.R2', 'the disconnecting mark is removed only after the '
             'client has left every room (never "unmarked but still a '
             'member")', floor=1)
    f = m.method('BaseManager', 'basic_disconnect')
    sid, ns = f.params[1:3]
    run = run_function(f, m, max_iter=2)
    seen = False
    for p in run.paths:
        if not p.normal:
            continue
        unmark = [e for e in p.events if
                  (e.kind == 'call' and e.callee() in ('remove', 'discard',
                                                       'pop') and
                   'pending_disconnect' in U(run.expand(e.expr))) or
                  (e.kind == 'del' and
                   'pending_disconnect' in U(run.expand(e.expr)))]
        leaves = [e for e in p.events if
                  (e.kind == 'call' and e.callee() == 'basic_leave_room') or
                  (e.kind == 'iter' and 'self.rooms[' in
                   U(run.expand(e.expr)))]
        if not unmark or not leaves:
            continue
        seen = True
        ctx.check(unmark[0].idx > leaves[-1].idx,
                  'BaseManager.basic_disconnect', 'pending_disconnect entry '
                  'is dropped after the rooms have been left',
                  key='unmark-before-leave', reason='the sid is removed '
                  'from pending_disconnect (line %d) before it has left its '
                  'rooms (line %d): in between is_connected() reports a '
                  'client whose disconnect handler already ran as connected, '
                  'and a concurrent disconnect() runs the handler again'
                  % (unmark[0].lineno, leaves[-1].lineno),
                  where=where(f, unmark[0].node))
    if not seen:
        ctx.bad('BaseManager.basic_disconnect', 'no-unmark', 'no path '
                'both leaves the rooms and drops the mark', where(f))
    ctx.rule('C04.R2', 'threaded server: the disconnect handler and the mark '
             'are dominated by a true connected-test on the same (sid, '
             'namespace) made in the same function - a verdict computed '
             'earlier (by a caller, before other handlers ran) is stale '
             '(shared rule)', floor=4)
    from .c04 import r1_r2_site
    for fname in ('disconnect', '_handle_disconnect'):
        r1_r2_site(ctx, 'sync', fname)
    ctx.rule('C04.R10', 'the default gate of disconnect(), can_disconnect, '
             'answers through is_connected (it sees the disconnecting mark) '
             '(shared rule)', floor=4)
    from .c04 import r10_can_disconnect
    r10_can_disconnect(ctx)
    ctx.rule('C20.R5', 'nothing that can reach the transport or the '
             'application runs between the connected-test and the mark (a '
             'send can report the loss of that very transport synchronously, '
             'and another thread gets the whole duration of the send to pass '
             'the same test)', floor=0)
    from .common import effects
    eff = effects(ctx)
    for fname in ('disconnect', '_handle_disconnect'):
        f = m.method('Server', fname)
        construct = 'Server.' + fname
        run = run_function(f, m)
        seen5 = set()
        k = 0
        for p in run.paths:
            marks = [e for e in p.calls('pre_disconnect')
                     if e.recv() == 'self.manager']
            tests = [e for e in p.events if e.kind == 'call' and
                     e.callee() in GATE_NAMES and e.recv() == 'self.manager']
            if not marks or not tests or tests[-1].idx > marks[0].idx:
                continue
            k += 1
            t0 = [t for t in tests if t.idx < marks[0].idx][-1]
            between = [e for e in p.events[t0.idx + 1:marks[0].idx]
                       if e.kind == 'call' and (
                           e.callee() in ('_send_packet', '_send_eio_packet',
                                          'send', 'disconnect') or
                           U(e.expr.func).startswith('self.eio.') or
                           eff.call_reaches_app(f, e.node))]
            key = tuple(e.lineno for e in between)
            if key in seen5:
                continue
            seen5.add(key)
            ctx.check(not between, construct, 'the mark follows the '
                      'connected-test without a transport / application '
                      'call in between', key='send-before-mark',
                      reason='%s runs between the connected-test (line %d) '
                      'and pre_disconnect (line %d): for the whole duration '
                      'of that call the client is not marked, and the '
                      'transport layer may report its loss from inside it' % (
                          ', '.join(U(e.expr)[:50] for e in between),
                          t0.lineno, marks[0].lineno),
                      where=where(f, between[0].node if between else None))
        if not k:
            # no connected-test in front of the mark: that is the gate
            # rule's (C04.R2) violation, nothing to measure here
            ctx.info(construct + ': no test/mark pair for C20.R5')
    ctx.rule('C20.R6', 'the lookups made before the connected-test '
             '(sid_from_eio_sid, is_connected) tolerate a client that '
             'another thread is half-way through removing: every index into '
             'rooms is guarded at its own level or sits in a try that '
             'catches KeyError', floor=2)
    for fname in ('sid_from_eio_sid', 'is_connected'):
        f = m.method('BaseManager', fname)
        construct = 'BaseManager.' + fname
        parent = {}
        for node in ast.walk(f.node):
            for ch in ast.iter_child_nodes(node):
                parent[ch] = node
        k6 = 0
        for node in walk_own(f.node):
            if not (isinstance(node, ast.Subscript) and
                    isinstance(node.ctx, ast.Load) and
                    U(node).startswith('self.rooms[')):
                continue
            # only maximal chains
            if isinstance(parent.get(node), ast.Subscript) and \
                    parent[node].value is node:
                continue
            k6 += 1
            in_try = False
            x = node
            while x in parent:
                pr = parent[x]
                if isinstance(pr, ast.Try) and any(
                        x is b or any(x is y for y in ast.walk(b))
                        for b in pr.body):
                    for h in pr.handlers:
                        if h.type is None or any(
                                nm in U(h.type) for nm in (
                                    'KeyError', 'LookupError', 'Exception')):
                            in_try = True
                x = pr
            # level-by-level guards: `k in self.rooms`, `k2 in self.rooms[k]`
            levels = []
            y = node
            while isinstance(y, ast.Subscript):
                levels.append((U(y.value), U(y.slice)))
                y = y.value
            guarded = True
            conds = [U(c) for c in ast.walk(f.node)
                     if isinstance(c, ast.Compare) and
                     isinstance(c.ops[0], ast.In)]
            for base, key in levels:
                if '%s in %s' % (key, base) not in conds:
                    guarded = False
            ctx.check(in_try or guarded, construct, 'index %s is guarded or '
                      'its KeyError caught' % U(node)[:50], key='raising-'
                      'lookup', reason='%s indexes %s without a guard for '
                      'every level and outside a try/except KeyError: while '
                      'another thread is removing the last client of the '
                      'namespace (rooms[ns] exists, rooms[ns][None] is '
                      'already gone) the thread that only wanted to test '
                      '"is it still connected?" raises' % (
                          fname, U(node)[:50]), where=where(f, node))
        if not k6:
            ctx.info(construct + ': no rooms index found')
    ctx.rule('C20.R4', 'whoever marks the client runs the disconnect handler: '
             'every path with a pre_disconnect mark triggers the '
             '\'disconnect\' event exactly once after it, whatever it '
             'observes later (the loser of the race relies on it)', floor=2)
    for fname in ('disconnect', '_handle_disconnect'):
        f = m.method('Server', fname)
        construct = 'Server.' + fname
        run = run_function(f, m)
        n = 0
        for p in run.paths:
            if not p.normal:
                continue
            marks = [e for e in p.calls('pre_disconnect')
                     if e.recv() == 'self.manager']
            if not marks:
                continue
            n += 1
            trig = [e for e in p.calls('_trigger_event')
                    if e.idx > marks[0].idx and e.expr.args and
                    is_const(e.expr.args[0], 'disconnect')]
            later = [U(run.expand(c.atom)) for c in p.conds
                     if c.at > marks[0].idx]
            ctx.check(len(trig) == 1, construct, 'marked => the disconnect '
                      'handler is triggered exactly once',
                      key='marker-runs-handler', reason='after marking the '
                      'client (line %d) the handler is triggered %d time(s) '
                      'on the path where %s: the other terminating thread '
                      'saw the mark and left the handler to this one'
                      % (marks[0].lineno, len(trig), later or 'nothing else '
                         'is tested'), where=where(f, marks[0].node))
        if not n:
            raise AnalysisError(construct + ': no marking path')
    ctx.rule('C11.R1', 'no trace remains: per-transport tables released on '
             'every path of the threaded _handle_eio_disconnect (shared '
             'rule)', floor=2)
    from .c11 import r1_transport_tables
    r1_transport_tables(ctx, 'sync')
    ctx.rule('C20.R3', 'pending_disconnect is read and written only by '
             'BaseManager.is_connected / pre_disconnect / basic_disconnect',
             floor=5)
    owners = {'__init__', 'is_connected', 'pre_disconnect',
              'basic_disconnect'}
    from ..known_names import KNOWN_NAMES
    for g in m.funcs:
        for node in walk_own(g.node):
            if isinstance(node, ast.Attribute) and \
                    node.attr == 'pending_disconnect':
                ok = g.cls is not None and g.cls.name == 'BaseManager' and \
                    (g.name in owners or g.name not in KNOWN_NAMES)
                ctx.check(ok, g.qualname, 'pending_disconnect accessed by '
                          'its owners only', key='pending-foreign',
                          reason='%s touches pending_disconnect outside the '
                          'test/mark/release functions' % g.qualname,
                          where=where(g, node))
    ctx.assume('a repair relying on a single GIL-atomic operation instead of '
               'a lock is not recognised (stated limit)')
    ctx.assume('schedules are NOT explored; this is the lock discipline '
               'necessary for the property')
