"""Helpers shared by several property modules."""
import ast

from ..model import AnalysisError
from ..sym import U, is_const, Run, run_function
from ..util import (bind_call, strip_await, where, same, SA, SERVER, CLIENT,
                    MANAGER, PUBSUB, callee_name)
from ..effects import Effects

PKT_PARAMS = ['packet_type', 'data', 'namespace', 'id', 'binary',
              'encoded_packet']


def effects(ctx):
    if not hasattr(ctx, '_effects'):
        ctx._effects = Effects(ctx.model)
    return ctx._effects


def packet_ctor(node):
    """If node is `<x>.packet_class(...)` / `packet.Packet(...)` return a
    dict param -> ast (type as constant name), else None."""
    node = strip_await(node)
    if not isinstance(node, ast.Call):
        return None
    f = node.func
    name = f.attr if isinstance(f, ast.Attribute) else \
        f.id if isinstance(f, ast.Name) else None
    if name not in ('packet_class', 'Packet', 'MsgPackPacket'):
        return None
    out = {}
    for i, a in enumerate(node.args):
        if isinstance(a, ast.Starred) or i >= len(PKT_PARAMS):
            return None
        out[PKT_PARAMS[i]] = a
    for k in node.keywords:
        if k.arg is None:
            return None
        out[k.arg] = k.value
    t = out.get('packet_type')
    if t is None:
        out['type'] = 'EVENT' if 'encoded_packet' not in out else None
    elif isinstance(t, ast.Attribute):
        out['type'] = t.attr
    elif isinstance(t, ast.Name):
        out['type'] = t.id
    else:
        out['type'] = U(t)
    return out


def sends(run, path, fname='_send_packet'):
    """[(event, packet dict or None, target ast)] for every _send_packet on
    the path; client-side _send_packet has no transport argument."""
    out = []
    for e in path.calls(fname):
        args = e.expr.args
        pkt_ast = run.expand(args[-1]) if args else None
        tgt = run.expand(args[0]) if len(args) == 2 else None
        out.append((e, packet_ctor(pkt_ast) if pkt_ast is not None else None,
                    tgt))
    return out


def is_mgr_call(e, name):
    return e.kind == 'call' and e.callee() == name and \
        e.recv() in ('self.manager', 'server.manager')


def call_args(run, e, finfo, names):
    """expanded arguments of call event e bound to finfo's parameters"""
    b = bind_call(e.expr, finfo)
    return [run.expand(b.get(n)) if b.get(n) is not None else None
            for n in names]


def trigger_calls(path, event_name=None):
    out = []
    for e in path.calls('_trigger_event'):
        a = e.expr.args
        if not a or isinstance(a[0], ast.Starred):
            continue
        if event_name is None or is_const(a[0], event_name):
            out.append(e)
    return out


def caught_origin(path, ev):
    """The 'caught' event (except-handler entry) whose exception originated
    at call event ev, if any."""
    for c in path.events:
        if c.kind == 'caught' and c.extra is not None and \
                c.extra.origin is ev:
            return c
    return None


def txt(n):
    return U(n) if n is not None else None



def shared_table_aliasing(ctx, attrs, what):
    """the per-key sub-tables of a two-level table are distinct objects: a
    construction that hands the same mutable object to every key
    (`dict.fromkeys(keys, {})`, `{k: shared for k in keys}` with a table built
    outside the comprehension) makes an entry made under one key visible
    under all of them."""
    import ast as _ast
    m = ctx.model
    n = 0
    for f in m.funcs:
        for node in _ast.walk(f.node):
            if not isinstance(node, (_ast.Assign, _ast.AnnAssign)):
                continue
            tg = node.targets if isinstance(node, _ast.Assign) else \
                [node.target]
            names = {t.attr for t in tg if isinstance(t, _ast.Attribute)}
            if not (names & set(attrs)) or node.value is None:
                continue
            n += 1
            bad = None
            for x in _ast.walk(node.value):
                if isinstance(x, _ast.Call) and \
                        isinstance(x.func, _ast.Attribute) and \
                        x.func.attr == 'fromkeys' and len(x.args) == 2 and \
                        isinstance(x.args[1], (_ast.Dict, _ast.List,
                                               _ast.Set, _ast.Call,
                                               _ast.DictComp,
                                               _ast.ListComp)):
                    bad = x
            ctx.check(bad is None, f.qualname, 'self.%s is built with a '
                      'distinct sub-table per key' % sorted(
                          names & set(attrs))[0], key='shared-subtable',
                      reason='%s: every key gets the SAME mutable object, so '
                      '%s' % (U(bad)[:70] if bad is not None else '', what),
                      where=where(f, node))
    return n


def exception_identity(ctx, module_names, rid):
    """python-socketio defines exceptions whose names coincide with builtin
    ones (ConnectionError, ConnectionRefusedError, TimeoutError).  The server
    catches, and applications are told to catch, the PACKAGE's classes: a
    bare name that is not imported from the exceptions module silently binds
    to the builtin of the same name, which none of those handlers catch.
    Rule: in the given modules every bare use (raise / except / call) of
    such a name resolves, through the module's imports or definitions, to
    socketio.exceptions."""
    import builtins
    m = ctx.model
    exc_mod = m.modules.get('exceptions')
    if exc_mod is None:
        raise AnalysisError(rid + ': socketio/exceptions.py not found')
    shadow = {n for n in exc_mod.classes if hasattr(builtins, n)}
    if not shadow:
        ctx.info('no package exception shadows a builtin: nothing to check')
        return
    n_sites = 0
    for mn in module_names:
        mod = m.modules.get(mn)
        if mod is None:
            raise AnalysisError('%s: module %s not found' % (rid, mn))
        for node in ast.walk(mod.tree):
            if not (isinstance(node, ast.Name) and node.id in shadow and
                    isinstance(node.ctx, ast.Load)):
                continue
            n_sites += 1
            target = mod.imports.get(node.id, '')
            ok = (target.endswith('exceptions:' + node.id) or
                  node.id in mod.classes or node.id in mod.globals)
            ctx.check(ok, 'module %s' % mn, '%s at line %d is the package\'s '
                      'exception class' % (node.id, node.lineno),
                      key='builtin-exception ' + node.id,
                      reason='%s at line %d is not imported from '
                      'socketio.exceptions in %s.py: the name binds to the '
                      'BUILTIN %s, which is not a subclass of the package\'s '
                      'class - the server\'s `except exceptions.%s` (and an '
                      'application\'s `except socketio.exceptions.%s`) does '
                      'not catch it' % (node.id, node.lineno, mn, node.id,
                                        node.id, node.id),
                      where='%s:%d' % (mod.relpath, node.lineno), rid=rid)
    return n_sites


def table_owners(ctx, table, classes, owners, rid, why):
    """who-may-touch rule for a manager / server table: every expression
    `self.<table>` in the given classes (subclasses included) sits in one of
    the owner methods, or in a private helper whose in-package callers are
    all owners (three levels)."""
    m = ctx.model
    cl = []
    for cn in classes:
        c = m.cls(cn)
        for k in [c] + list(m.subclasses(c)):
            if k not in cl:
                cl.append(k)
    funcs = [f for c in cl for f in c.methods.values()]
    callers = {}
    for g in funcs:
        for t in m.callees(g):
            callers.setdefault(t, set()).add(g)

    def owned(f, depth=0):
        if f.name in owners:
            return True
        cs = callers.get(f, set())
        return bool(cs) and depth < 3 and f.name.startswith('_') and \
            all(owned(g, depth + 1) for g in cs)
    n = 0
    for f in funcs:
        # a read inside a log statement is not an access that matters
        logged = set()
        for st in m._walk_own(f.node):
            if isinstance(st, ast.Expr) and isinstance(st.value, ast.Call) \
                    and ('logger' in U(st.value.func) or
                         '_get_logger' in U(st.value.func)):
                logged |= {id(y) for y in ast.walk(st)}
        for x in m._walk_own(f.node):
            if isinstance(x, ast.Attribute) and U(x) == 'self.' + table \
                    and id(x) not in logged:
                n += 1
                ctx.check(owned(f), '%s.%s' % (f.cls.name, f.name),
                          'self.%s is touched by one of its owners (%s)'
                          % (table, ', '.join(owners)),
                          key='foreign access to ' + table,
                          reason='%s.%s reads or writes self.%s (line %d); '
                          'the table is owned by %s: %s' % (
                              f.cls.name, f.name, table, x.lineno,
                              ', '.join(owners), why),
                          where=where(f, x), rid=rid)
    return n
