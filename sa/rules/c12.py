"""C12 - hostile input from one client cannot touch other clients.

R1 (taint to sink) numbers decoded from the wire (attachment count, id)
   never size an allocation / loop: no flow into range(), sequence
   repetition, bytes(n)/bytearray(n), zfill/ljust/rjust/center.
R2 guards first: the attachment-count test precedes the append; the count's
   int() is bounded by a length test; the id scanner is bounded and a longer
   digit run is rejected.
R3 per-transport state is keyed by the handler's own transport id.
R4 packet-type whitelist and decode-before-dispatch (shared with C05.R1).
R5 connected-namespace gate (shared with C05.R2).
R6 every answer of the message path goes to the sender's own transport.
"""
import ast

from ..model import AnalysisError
from ..sym import U, is_const, Run, run_function
from ..util import where, SA, SERVER, walk_own
from .common import sends, txt
from . import msgpath
from .c05 import launch_rules

SINK_CALLS = {'range', 'bytearray', 'bytes', 'zfill', 'ljust', 'rjust',
              'center', 'repeat'}
SEQ = (ast.List, ast.Tuple, ast.Set, ast.JoinedStr)


def tainted_names(m):
    """names / attribute names that hold integers decoded from the wire"""
    f = m.own_method('Packet', 'decode')
    names, attrs = set(), set()
    for n in walk_own(f.node):
        if isinstance(n, ast.Assign) and any(
                isinstance(c, ast.Call) and U(c.func) == 'int'
                for c in ast.walk(n.value)):
            for t in n.targets:
                if isinstance(t, ast.Name):
                    names.add(t.id)
                elif isinstance(t, ast.Attribute):
                    attrs.add(t.attr)
    ret_tainted = any(isinstance(n, ast.Return) and n.value is not None and
                      any(isinstance(x, ast.Name) and x.id in names
                          for x in ast.walk(n.value))
                      for n in walk_own(f.node))
    if ret_tainted:
        init = m.own_method('Packet', '__init__')
        for n in walk_own(init.node):
            if isinstance(n, ast.Assign) and 'decode(' in U(n.value):
                for t in n.targets:
                    if isinstance(t, ast.Attribute):
                        attrs.add(t.attr)
    g = m.own_method('MsgPackPacket', 'decode')
    for n in walk_own(g.node):
        if isinstance(n, ast.Assign):
            for t in n.targets:
                if isinstance(t, ast.Attribute) and t.attr in ('id',):
                    attrs.add(t.attr)
    return names, attrs


def mentions(node, names, attrs, local_names):
    for x in ast.walk(node):
        if isinstance(x, ast.Name) and (x.id in names and local_names or
                                        x.id in local_names):
            return U(x)
        if isinstance(x, ast.Attribute) and x.attr in attrs:
            return U(x)
    return None


def scan_sinks(tree, names, attrs, in_decode_names):
    """-> list of (node, description) where a tainted value reaches a sink"""
    out = []
    for fn in ast.walk(tree):
        if not isinstance(fn, (ast.FunctionDef, ast.AsyncFunctionDef)):
            continue
        local = set()
        if fn.name == 'decode':
            local |= in_decode_names
        # parameters that carry the decoded id
        for a in fn.args.args:
            if a.arg == 'id' and fn.name.startswith('_handle'):
                local.add('id')
        for n in walk_own(fn):
            if isinstance(n, ast.Call):
                nm = n.func.attr if isinstance(n.func, ast.Attribute) else \
                    n.func.id if isinstance(n.func, ast.Name) else None
                if nm in SINK_CALLS:
                    for a in list(n.args) + [k.value for k in n.keywords]:
                        t = mentions(a, names, attrs, local)
                        if t:
                            out.append((n, '%s flows into %s()' % (t, nm)))
            if isinstance(n, ast.BinOp) and isinstance(n.op, ast.Mult):
                for seq, num in ((n.left, n.right), (n.right, n.left)):
                    is_seq = isinstance(seq, SEQ) or (
                        isinstance(seq, ast.Constant) and
                        isinstance(seq.value, (str, bytes)))
                    if is_seq:
                        t = mentions(num, names, attrs, local)
                        if t:
                            out.append((n, '%s repeats a sequence' % t))
    return out


CONTROL = '''
class P:
    def decode(self, ep):
        attachment_count = int(ep[0:3])
        self.attachments = [None] * attachment_count
        for _ in range(self.attachment_count):
            pass
'''


def r1_taint(ctx):
    m = ctx.model
    names, attrs = tainted_names(m)
    if 'attachment_count' not in names | attrs or 'id' not in attrs:
        raise AnalysisError('C12.R1: taint sources not found in '
                            'Packet.decode (got %s / %s)' % (names, attrs))
    ctl = scan_sinks(ast.parse(CONTROL), names, attrs, names)
    if len(ctl) < 2:
        raise AnalysisError('C12.R1 positive control not flagged: the '
                            'taint rule is blind')
    n = 0
    for mod in m.modules.values():
        hits = scan_sinks(mod.tree, names, attrs, names)
        n += 1
        for node, what in hits:
            ctx.bad(mod.relpath, 'size-from-wire ' + what,
                    'a number declared on the wire sizes an allocation or '
                    'loop: ' + what, '%s:%d' % (mod.relpath, node.lineno))
        if not hits:
            ctx.ok(mod.relpath, 'no wire-declared number reaches range(), '
                   'sequence repetition or a sized constructor',
                   mod.relpath)
    ctx.extra['taint_sources'] = {'names': sorted(names),
                                  'attrs': sorted(attrs)}


def r2_guards(ctx):
    m = ctx.model
    f = m.own_method('Packet', 'add_attachment')
    construct = 'Packet.add_attachment'
    run = run_function(f, m)
    n_app = 0
    for p in run.paths:
        for e in p.calls('append'):
            if e.recv() != 'self.attachments':
                continue
            n_app += 1
            g = [c for c in p.conds if c.at <= e.idx and c.pol and
                 U(run.expand(c.atom)) ==
                 'len(self.attachments) < self.attachment_count']
            ctx.check(bool(g), construct, 'append only after the '
                      'count-exceeded test failed', key='append-guard',
                      reason='an attachment is stored without (or before) '
                      'the `attachment_count <= len(attachments)` rejection',
                      where=where(f, e.node))
    raises = [p for p in run.paths if p.exit == 'raise' and
              'ValueError' in U(p.value) and not p.calls('append')]
    ctx.check(bool(raises) and n_app, construct, 'surplus attachment is '
              'rejected with ValueError before anything is stored',
              key='surplus-raise', where=where(f))
    # completion protocol
    def is_done_cmp(a):
        return U(a) in ('self.attachment_count == len(self.attachments)',
                        'len(self.attachments) == self.attachment_count')
    for p in run.paths:
        if p.exit != 'return':
            continue
        app = [e for e in p.calls('append')
               if e.recv() == 'self.attachments']
        done = None
        for c in p.conds:
            if is_done_cmp(run.expand(c.atom)) and app and \
                    c.at > app[0].idx:
                done = c.pol
        v = run.expand(p.value) if p.value is not None else None
        rec = p.calls('reconstruct_binary')
        if done is None:
            ctx.bad(construct, 'complete-untested', 'a path returns %s '
                    'without comparing the attachment count with the number '
                    'received after the append' % txt(v), where(f))
            continue
        okv = (isinstance(v, ast.Constant) and v.value is done) or \
            (v is not None and is_done_cmp(v))
        ctx.check(okv and bool(rec) == done, construct,
                  'returns %s exactly when the declared count is reached '
                  'after the append, data reconstructed then and only then'
                  % done, key='complete', reason='with count reached=%s the '
                  'function returns %s and reconstructs %d time(s)' % (
                      done, txt(v), len(rec)), where=where(f))
    # ---- decode
    f = m.own_method('Packet', 'decode')
    construct = 'Packet.decode'
    ints = []
    for n in walk_own(f.node):
        if isinstance(n, ast.Assign) and isinstance(n.value, ast.Call) and \
                U(n.value.func) == 'int' and n.value.args and \
                isinstance(n.value.args[0], ast.Subscript):
            ints.append(n)
    count_int = [n for n in ints if isinstance(n.targets[0], ast.Name)]
    id_int = [n for n in ints if isinstance(n.targets[0], ast.Attribute) and
              n.targets[0].attr == 'id']
    if not count_int or not id_int:
        raise AnalysisError('Packet.decode: int() conversions of the count '
                            'and the id not found')
    run = run_function(f, ctx.model, max_iter=1, max_paths=200000)
    for n in count_int:
        sl = n.value.args[0].slice
        bound_var = U(sl.upper) if isinstance(sl, ast.Slice) and sl.upper \
            is not None else None
        ok_all = True
        seen = False
        for p in run.paths:
            for e in p.events:
                if e.kind == 'call' and e.node is n.value:
                    seen = True
                    g = []
                    for c in p.conds:
                        a = c.atom
                        if c.at > e.idx or not isinstance(a, ast.Compare) \
                                or not isinstance(a.ops[0], ast.Lt) or \
                                not bound_var:
                            continue
                        l, r = a.left, a.comparators[0]
                        # K < var false  (var <= K)   or   var < K true
                        if isinstance(l, ast.Constant) and \
                                isinstance(l.value, int) and l.value > 1 \
                                and bound_var in U(r) and not c.pol:
                            g.append(c)
                        if isinstance(r, ast.Constant) and \
                                isinstance(r.value, int) and r.value > 1 \
                                and bound_var in U(l) and c.pol:
                            g.append(c)
                    ok_all = ok_all and bool(g)
        ctx.check(seen and ok_all, construct, 'the attachment-count digits '
                  'are converted only after their number was bounded',
                  key='count-bound', reason='int() of the declared '
                  'attachment count is reachable without an upper bound on '
                  'the number of digits', where=where(f, n))
    r2b_bound_origin(ctx)
    # id scanner: loop bounded by a numeric constant, overflow rejected
    from ..sym import with_new_helpers
    # the scanner: the loop / generator that tests characters with isdigit
    loops = [n for g in with_new_helpers(m, f)
             for n in walk_own(g.node)
             if isinstance(n, (ast.While, ast.For, ast.GeneratorExp,
                               ast.ListComp)) and any(
                 isinstance(x, ast.Attribute) and x.attr == 'isdigit'
                 for x in ast.walk(n))]
    bounded = False
    for lp in loops:
        for c in ast.walk(lp):
            if isinstance(c, ast.Compare) and \
                    isinstance(c.ops[0], (ast.GtE, ast.Gt, ast.Lt, ast.LtE)) \
                    and isinstance(c.comparators[0], ast.Constant) and \
                    isinstance(c.comparators[0].value, int):
                bounded = True
    for n in id_int:
        ctx.check(bounded, construct, 'the id scanner stops at a constant '
                  'number of digits', key='id-bound', reason='the digit '
                  'scanner of the id has no constant bound',
                  where=where(f, n))
        rejected = False
        for p in run.paths:
            if p.exit == 'raise' and 'ValueError' in U(p.value):
                st = [e for e in p.events if e.kind == 'store' and
                      U(e.expr) == 'self.id']
                late = [c for c in p.conds if st and c.at > st[0].idx and
                        'isdigit' in U(run.expand(c.atom)) and c.pol]
                rejected = rejected or bool(late)
        ctx.check(rejected, construct, 'a digit following the accepted id '
                  'run is rejected with ValueError', key='id-overflow',
                  reason='an id longer than the scanner bound is silently '
                  'split instead of rejected', where=where(f, n))


def r2b_bound_origin(ctx):
    """A length limit must be measured from the start of the field it
    limits.  In the decoder every integer that is compared with a constant
    limit (digits of the attachment count, digits of the id) is an index into
    the frame; if that index was initialised relative to a moving position
    (`i = pos + 1`, `dash = ep.find('-', pos)`) the comparison has to mention
    the same position (`i - pos >= 100`), otherwise the limit silently counts
    from the start of the frame and shrinks by the length of the preceding
    fields."""
    m = ctx.model
    from ..sym import with_new_helpers
    f = m.own_method('Packet', 'decode')
    n = 0
    for g in with_new_helpers(m, f):
        frame = set(g.params)           # the frame text and its re-slices
        assigns = [x for x in ast.walk(g.node) if isinstance(x, ast.Assign)
                   and isinstance(x.targets[0], ast.Name)]
        # names that are (re)bound to a slice of a frame variable are frames
        changed = True
        while changed:
            changed = False
            for a in assigns:
                if a.targets[0].id not in frame and isinstance(
                        a.value, (ast.Subscript, ast.Name, ast.Constant)) \
                        and any(isinstance(x, ast.Name) and x.id in frame
                                for x in ast.walk(a.value)) and \
                        isinstance(a.value, (ast.Subscript, ast.Name)):
                    frame.add(a.targets[0].id)
                    changed = True

        def base(expr, var):
            return {x.id for x in ast.walk(expr) if isinstance(x, ast.Name)
                    and x.id not in frame and x.id != var and
                    x.id not in ('len', 'int', 'str')}
        for c in ast.walk(g.node):
            if not (isinstance(c, ast.Compare) and len(c.ops) == 1 and
                    isinstance(c.ops[0], (ast.Gt, ast.GtE, ast.Lt,
                                          ast.LtE))):
                continue
            sides = [c.left, c.comparators[0]]
            consts = [x for x in sides if isinstance(x, ast.Constant) and
                      isinstance(x.value, int) and x.value >= 10]
            if not consts:
                continue
            other = sides[0] if sides[1] is consts[0] else sides[1]
            names = [x.id for x in ast.walk(other) if isinstance(x, ast.Name)
                     and x.id not in frame]
            if not names:
                continue
            var = names[0]
            inits = [a for a in assigns if a.targets[0].id == var and
                     a.lineno < c.lineno]
            if not inits:
                continue
            n += 1
            need = set()
            for a in inits:
                need |= base(a.value, var)
            have = base(other, var)
            ctx.check(need <= have, 'Packet.' + g.name if g.cls else g.name,
                      'the limit `%s` is measured from the position its '
                      'index was initialised from' % U(c),
                      key='bound-origin ' + var,
                      reason='`%s` limits `%s`, which was initialised '
                      'relative to %s (%s), but the comparison does not '
                      'mention it: the limit counts from the start of the '
                      'frame and shrinks by the length of the preceding '
                      'fields' % (U(c), var, sorted(need),
                                  U(inits[-1])), where=where(g, c))
    # (a missing limit is reported by the presence rules of r2_guards)


def r3_own_transport(ctx, fam):
    m = ctx.model
    S = SERVER[fam]
    n = 0
    for cname in (S, 'BaseServer'):
        for f in m.cls(cname).methods.values():
            key = 'eio_sid' if 'eio_sid' in f.params else None
            for node in walk_own(f.node):
                if isinstance(node, ast.Subscript) and U(node.value) in (
                        'self._binary_packet', 'self.environ'):
                    n += 1
                    ctx.check(key is not None and U(node.slice) == key,
                              '%s.%s' % (cname, f.name), '%s indexed by '
                              'the function\'s own transport id'
                              % U(node.value), key='foreign-key',
                              reason='%s indexed by %s' % (U(node.value),
                                                           U(node.slice)),
                              where=where(f, node))
                if isinstance(node, ast.Compare) and \
                        isinstance(node.ops[0], (ast.In, ast.NotIn)) and \
                        U(node.comparators[0]) in ('self._binary_packet',
                                                   'self.environ'):
                    n += 1
                    ctx.check(key is not None and U(node.left) == key,
                              '%s.%s' % (cname, f.name), 'membership test '
                              'on %s uses the own transport id'
                              % U(node.comparators[0]), key='foreign-key',
                              where=where(f, node))
    if n < 6:
        raise AnalysisError('C12.R3: only %d uses of the per-transport '
                            'tables found in %s' % (n, S))


SHARED_TABLES = {'_binary_packet': 'per-transport binary reassembly buffer',
                 'environ': 'per-transport request environment',
                 'callbacks': 'per-client outstanding callbacks',
                 'pending_disconnect': 'per-namespace disconnecting sids',
                 'rooms': 'membership of every client'}


def r3b_whole_table_writes(ctx):
    """tables that hold the state of *all* clients are never replaced or
    cleared as a whole outside a constructor: such a write made while one
    client is being served wipes the state of every other client."""
    m = ctx.model
    n = 0
    server_side = [c for c in m.classes.values()
                   if any(b.name in ('BaseServer', 'BaseManager')
                          for b in m.mro(c))]
    for c in server_side:
        for f in c.methods.values():
            for node in walk_own(f.node):
                hit = None
                if isinstance(node, (ast.Assign, ast.AugAssign,
                                     ast.AnnAssign, ast.Delete)):
                    tg = node.targets if isinstance(
                        node, (ast.Assign, ast.Delete)) else [node.target]
                    for t in tg:
                        for x in (t.elts if isinstance(t, ast.Tuple)
                                  else [t]):
                            if isinstance(x, ast.Attribute) and \
                                    x.attr in SHARED_TABLES and \
                                    U(x.value) in ('self', 'self.manager',
                                                   'self.server'):
                                hit = (x.attr, 'replaces')
                elif isinstance(node, ast.Call) and \
                        isinstance(node.func, ast.Attribute) and \
                        node.func.attr in ('clear', 'popitem') and \
                        isinstance(node.func.value, ast.Attribute) and \
                        node.func.value.attr in SHARED_TABLES and \
                        U(node.func.value.value) in ('self', 'self.manager',
                                                     'self.server'):
                    hit = (node.func.value.attr, 'clears')
                if hit is None:
                    continue
                n += 1
                ctx.check(f.name == '__init__', '%s.%s' % (c.name, f.name),
                          'the shared table %s is only created in a '
                          'constructor' % hit[0],
                          key='whole-table %s' % hit[0],
                          reason='%s.%s %s the whole table %s (%s): the '
                          'state of every other client is lost'
                          % (c.name, f.name, hit[1], hit[0],
                             SHARED_TABLES[hit[0]]), where=where(f, node))
    if n < 5:
        raise AnalysisError('C12.R3: only %d whole-table writes found (the '
                            'constructors alone make 5)' % n)


CODEC = [('Packet', ('decode', 'encode', 'add_attachment',
                     'reconstruct_binary', '_reconstruct_binary_internal',
                     'deconstruct_binary', '_deconstruct_binary_internal',
                     '_data_is_binary')),
         ('MsgPackPacket', ('decode', 'encode'))]


def r7_codec_stateless(ctx):
    """decoding one client's frame must not depend on, or leave traces in,
    state shared with other clients: the codec functions call no method of a
    module-level object (other than imported modules, classes and
    functions), declare no `global`, and write no class attribute."""
    m = ctx.model
    from ..sym import with_new_helpers
    n = 0
    for cname, fnames in CODEC:
        cls = m.cls(cname)
        mod = cls.module
        shared = {}
        for st in mod.tree.body:
            if isinstance(st, (ast.Assign, ast.AnnAssign)):
                v = st.value
                tg = st.targets if isinstance(st, ast.Assign) else [st.target]
                mutable = isinstance(v, (ast.Call, ast.List, ast.Dict,
                                         ast.Set, ast.ListComp, ast.DictComp,
                                         ast.SetComp)) and not (
                    isinstance(v, ast.Call) and U(v.func) in (
                        're.compile', 'frozenset', 'tuple', 'object'))
                for t in tg:
                    for x in ast.walk(t):
                        if isinstance(x, ast.Name) and mutable:
                            shared[x.id] = st
        for fname in fnames:
            f = m.lookup(cls, fname)
            if f is None or f.cls is not cls and cname != 'Packet' and \
                    f.cls.name != cname:
                continue
            for g in with_new_helpers(m, f):
                n += 1
                construct = g.qualname
                bad = []
                for node in walk_own(g.node):
                    if isinstance(node, ast.Global):
                        bad.append((node, 'declares global %s'
                                    % ', '.join(node.names)))
                    if isinstance(node, ast.Call) and \
                            isinstance(node.func, ast.Attribute):
                        root = node.func.value
                        while isinstance(root, (ast.Attribute,
                                                ast.Subscript)):
                            root = root.value
                        if isinstance(root, ast.Name) and \
                                root.id in shared and \
                                root.id not in g.params:
                            bad.append((node, 'calls %s on the module-level '
                                        'object %s' % (node.func.attr,
                                                       root.id)))
                    if isinstance(node, (ast.Assign, ast.AugAssign)):
                        tg = node.targets if isinstance(node, ast.Assign) \
                            else [node.target]
                        for t in tg:
                            while isinstance(t, ast.Subscript):
                                t = t.value
                            if isinstance(t, ast.Attribute) and \
                                    U(t.value) in (cname, 'self.__class__',
                                                   'type(self)', 'cls'):
                                bad.append((node, 'writes the class '
                                            'attribute %s' % U(t)))
                            if isinstance(t, ast.Name) and t.id in shared \
                                    and isinstance(node, ast.AugAssign):
                                bad.append((node, 'updates module-level %s'
                                            % t.id))
                for node, what in bad:
                    ctx.bad(construct, 'codec-shared-state ' + what,
                            'the codec %s: state shared by every connection '
                            'of the process - one client\'s (malformed) '
                            'frame changes how the next client\'s frame is '
                            'decoded' % what, where(g, node))
                if not bad:
                    ctx.ok(construct, 'codec function keeps no state '
                           'outside the packet object', where(g))
    # class attributes holding a mutable display that instances mutate in
    # place (without rebinding them per instance) are shared by every packet
    # of every client
    for cname, _ in CODEC:
        cls = m.cls(cname)
        for st_ in cls.node.body:
            if not isinstance(st_, (ast.Assign, ast.AnnAssign)) or \
                    st_.value is None:
                continue
            if not isinstance(st_.value, (ast.List, ast.Dict, ast.Set)):
                continue
            tg = st_.targets if isinstance(st_, ast.Assign) else [st_.target]
            for t in tg:
                if not isinstance(t, ast.Name):
                    continue
                nm = t.id
                rebound = any(
                    isinstance(x, ast.Assign) and any(
                        U(tt) == 'self.' + nm for tt in x.targets)
                    for g in cls.methods.values() if g.name == '__init__'
                    for x in walk_own(g.node))
                mutated = [x for g in cls.methods.values()
                           for x in walk_own(g.node)
                           if (isinstance(x, ast.Call) and
                               isinstance(x.func, ast.Attribute) and
                               U(x.func.value) == 'self.' + nm and
                               x.func.attr in ('append', 'clear', 'extend',
                                               'pop', 'insert', 'update',
                                               'add', 'remove',
                                               'setdefault')) or
                           (isinstance(x, ast.Subscript) and
                            isinstance(x.ctx, (ast.Store, ast.Del)) and
                            U(x.value) == 'self.' + nm)]
                ctx.check(rebound or not mutated, cname, 'class attribute '
                          '%s is not a mutable object shared by all packets'
                          % nm, key='class-level-state ' + nm,
                          reason='%s.%s is a class-level %s that instances '
                          'mutate in place (%s) without binding their own: '
                          'the partially received packets of all clients '
                          'share it, one client\'s attachment completes or '
                          'corrupts another client\'s packet' % (
                              cname, nm, type(st_.value).__name__.lower(),
                              U(mutated[0])[:40] if mutated else ''),
                          where='%s:%d' % (cls.module.relpath, st_.lineno))
    if n < 8:
        raise AnalysisError('C12.R7: only %d codec functions found' % n)


def r8_placeholder_never_data(ctx):
    """a dict carrying a truthy `_placeholder` and a `num` is a reference to
    an attachment: reconstruction replaces it by that attachment or fails
    (bad index / bad type raise, the packet is dropped) - on no path is it
    handed on as application data (a forged placeholder would reach handlers
    and be relayed to other clients as if it were a binary reference)."""
    m = ctx.model
    f = m.own_method('Packet', '_reconstruct_binary_internal')
    construct = 'Packet._reconstruct_binary_internal'
    data_p, att_p = f.params[1:3]

    def oracle(atom, run, st):
        a = run.expand(atom)
        t = U(a)
        if isinstance(a, ast.Call) and U(a.func) == 'isinstance' and \
                len(a.args) == 2 and U(a.args[0]) == data_p:
            ty = a.args[1]
            names = [U(x) for x in (ty.elts if isinstance(ty, ast.Tuple)
                                    else [ty])]
            return 'dict' in names
        if t in ("%s.get('_placeholder')" % data_p,
                 "%s['_placeholder']" % data_p,
                 "'_placeholder' in %s" % data_p, "'num' in %s" % data_p):
            return True
        return None
    run = run_function(f, m, oracle=oracle)
    n = 0
    for p in run.paths:
        if not p.normal:
            continue
        n += 1
        v = run.expand(p.value) if p.value is not None else None
        good = isinstance(v, ast.Subscript) and U(v.value) == att_p
        others = [('' if c.pol else 'not ') + U(run.expand(c.atom))[:50]
                  for c in p.conds if 'isinstance' not in U(run.expand(
                      c.atom)) and '_placeholder' not in U(run.expand(
                          c.atom)) and "'num' in" not in U(run.expand(c.atom))]
        ctx.check(good, construct, 'a placeholder dict is replaced by the '
                  'attachment it names', key='placeholder-as-data',
                  reason='a dict with a truthy _placeholder and a num is '
                  'returned as %s%s: a forged placeholder (bad index or '
                  'type) reaches the application as data instead of making '
                  'the packet undecodable' % (
                      txt(v)[:60], ' when ' + ' and '.join(others)
                      if others else ''), where=where(f))
    if not n:
        ctx.bad(construct, 'no-path', 'no returning path for a placeholder '
                'dict', where(f))


def r9_frames_are_ascii(ctx):
    """what a client sent is relayed to other clients inside frames the
    server encodes: the JSON text is produced with ensure_ascii left on, so a
    string the decoder accepted (lone surrogate escapes included) is escaped
    again and every frame is transmittable text; with ensure_ascii=False one
    client's payload makes the shared frame of all recipients unencodable."""
    m = ctx.model
    f = m.own_method('Packet', 'encode')
    n = 0
    from ..sym import with_new_helpers
    for g in with_new_helpers(m, f):
        for c in walk_own(g.node):
            if isinstance(c, ast.Call) and isinstance(c.func, ast.Attribute) \
                    and c.func.attr == 'dumps':
                n += 1
                kw = {k.arg: k.value for k in c.keywords}
                ea = kw.get('ensure_ascii')
                ctx.check(ea is None or is_const(ea, True),
                          'Packet.' + g.name, 'JSON text is produced with '
                          'ensure_ascii on', key='ensure-ascii',
                          reason='dumps(..., ensure_ascii=%s): characters '
                          'the transport cannot encode (a lone surrogate '
                          'sent by one client and relayed by a handler) are '
                          'copied raw into the frame queued for every '
                          'recipient' % txt(ea), where=where(g, c))
                ctx.check(None not in kw, 'Packet.' + g.name, 'no opaque '
                          '**options reach dumps', key='dumps-kwargs',
                          where=where(g, c))
    if not n:
        raise AnalysisError('Packet.encode: no dumps call found')


def nested_unbounded_repeat(pattern):
    """True when the regular expression has an unbounded repetition whose
    body itself contains an unbounded repetition or an alternation under
    repetition ((a+)+, (a|aa)*, (?:x+/?)*): the classic exponential
    backtracking shapes."""
    import re._parser as rp
    import re._constants as rc
    try:
        tree = rp.parse(pattern)
    except Exception:
        return False

    def unbounded_inside(sub):
        for op, av in sub:
            if op in (rc.MAX_REPEAT, rc.MIN_REPEAT, rc.POSSESSIVE_REPEAT):
                lo, hi, item = av
                if hi == rc.MAXREPEAT or unbounded_inside(item):
                    return True
            elif op is rc.SUBPATTERN:
                if unbounded_inside(av[3]):
                    return True
            elif op is rc.BRANCH:
                return True     # alternation under a repetition
            elif op in (rc.ATOMIC_GROUP,):
                if unbounded_inside(av):
                    return True
        return False

    def walk(sub):
        for op, av in sub:
            if op in (rc.MAX_REPEAT, rc.MIN_REPEAT):
                lo, hi, item = av
                if hi == rc.MAXREPEAT and unbounded_inside(item):
                    return True
                if walk(item):
                    return True
            elif op is rc.SUBPATTERN:
                if walk(av[3]):
                    return True
            elif op is rc.BRANCH:
                if any(walk(b) for b in av[1]):
                    return True
        return False
    return walk(tree)


def r10_regex_linear(ctx):
    """a regular expression applied to text a client sent runs in time
    polynomial in the text only if it has no nested unbounded repetition;
    CPython's re holds the GIL while it backtracks, so one short frame can
    stop every client of the process."""
    assert nested_unbounded_repeat(r'/(?:[\w.~%@:+-]+/?)*')
    assert nested_unbounded_repeat(r'(a+)+$')
    assert not nested_unbounded_repeat(r'/[\w/.-]*')
    ctx.ok('C12.R10', 'positive and negative controls of the nested-'
           'repetition detector behave', 'sa/rules/c12.py')
    m = ctx.model
    for cname, _ in CODEC:
        mod = m.cls(cname).module
        for node in ast.walk(mod.tree):
            if not (isinstance(node, ast.Call) and
                    isinstance(node.func, ast.Attribute) and
                    U(node.func.value) == 're' and node.args and
                    isinstance(node.args[0], ast.Constant) and
                    isinstance(node.args[0].value, str)):
                continue
            pat = node.args[0].value
            ctx.check(not nested_unbounded_repeat(pat), mod.relpath,
                      'regular expression %r has no nested unbounded '
                      'repetition' % pat[:40], key='regex-backtracking',
                      reason='the pattern %r nests unbounded repetitions: '
                      'matching a frame of a few dozen characters that '
                      'almost matches takes exponential time with the GIL '
                      'held - one client stops the server for all' % pat,
                      where='%s:%d' % (mod.relpath, node.lineno))


def r6_answers(ctx, fam):
    m = ctx.model
    S = SERVER[fam]
    n = 0
    for fname in ('_handle_connect', '_handle_event_internal',
                  '_handle_disconnect', '_handle_ack', '_handle_event'):
        f = m.method(S, fname)
        run = run_function(f, m)
        seen = set()
        for p in run.paths:
            for e, pk, tgt in sends(run, p):
                if e.lineno in seen:
                    continue
                seen.add(e.lineno)
                n += 1
                ctx.check(U(tgt) == 'eio_sid' and 'eio_sid' in f.params,
                          '%s.%s' % (S, fname), 'packet is sent to the '
                          'transport the message came from',
                          key='answer-target', reason='answer sent to %s'
                          % U(tgt), where=where(f, e.node))
    if n < 4:
        raise AnalysisError('C12.R6 found only %d answer sites' % n)


LIMIT_KW = ('max_str_len', 'max_bin_len', 'max_array_len', 'max_map_len',
            'max_ext_len', 'max_buffer_size')


def r11_msgpack_limits(ctx):
    """msgpack's decoder refuses a container / string header that declares
    more elements than the frame has bytes - that default (limit = length of
    the input) is what keeps a 5-byte header from reserving a million slots.
    A limit keyword that is not derived from the length of the frame replaces
    it: with a constant N every nested header may reserve up to N slots
    whatever the size of the frame.  Rule: the decoder's calls into msgpack
    pass no max_* limit, or one computed from len(<the frame>)."""
    m = ctx.model
    f = m.own_method('MsgPackPacket', 'decode')
    construct = 'MsgPackPacket.decode'
    frame = f.params[1]
    n = 0
    for c in ast.walk(f.module.tree):
        if not isinstance(c, ast.Call):
            continue
        name = U(c.func)
        if not (name.startswith('msgpack.') and name.split('.')[-1] in (
                'loads', 'unpackb', 'Unpacker')):
            continue
        n += 1
        kws = []
        opaque = False
        for k in c.keywords:
            if k.arg is not None:
                kws.append(k)
                continue
            # **name of a module-level dict display is read through
            d = f.module.globals.get(k.value.id) if isinstance(
                k.value, ast.Name) else None
            if isinstance(d, ast.Dict) and all(
                    isinstance(x, ast.Constant) and isinstance(x.value, str)
                    for x in d.keys):
                for kk, vv in zip(d.keys, d.values):
                    if isinstance(vv, ast.Name) and \
                            vv.id in f.module.globals:
                        vv = f.module.globals[vv.id]
                    kws.append(ast.keyword(arg=kk.value, value=vv))
            else:
                opaque = True
        if opaque:
            ctx.bad(construct, 'msgpack-limit **kwargs', 'the decoder call '
                    '%s receives **kwargs: its allocation limits cannot be '
                    'read off the source' % name, where(f, c))
            continue
        for k in kws:
            if k.arg not in LIMIT_KW:
                continue
            tied = any(isinstance(x, ast.Call) and U(x.func) == 'len' and
                       x.args and U(x.args[0]) == frame
                       for x in ast.walk(k.value))
            ctx.check(tied, construct, 'limit %s is tied to the length of '
                      'the frame' % k.arg, key='msgpack-limit ' + k.arg,
                      reason='%s=%s replaces msgpack\'s default limit (the '
                      'length of the frame): a header declaring up to that '
                      'many elements is accepted and its container reserved '
                      'before any element has arrived, so a frame of a few '
                      'bytes makes the server reserve memory in proportion '
                      'to the number declared' % (k.arg, U(k.value)),
                      where=where(f, c))
        ctx.ok(construct, 'decoder call %s keeps the frame-length limits'
               % name, where(f, c))
    if not n:
        ctx.info('C12.R11: no msgpack.loads / unpackb / Unpacker call in '
                 'msgpack_packet.py')


def run(ctx):
    ctx.rule('C12.R1', 'wire-declared numbers (attachment count, id) never '
             'reach range(), sequence repetition or a sized constructor '
             '(positive control built in)', floor=25)
    r1_taint(ctx)
    ctx.rule('C12.R2', 'guards first: count-exceeded test before the '
             'append; count digits bounded before int(); id scanner bounded '
             'and overflow rejected; completion protocol', floor=6)
    r2_guards(ctx)
    ctx.rule('C12.R3', 'per-transport state keyed by the own transport id',
             floor=12)
    for fam in SA:
        r3_own_transport(ctx, fam)
    r3b_whole_table_writes(ctx)
    ctx.rule('C12.R4', 'packet-type whitelist; undecodable input never '
             'reaches a handler (decode precedes dispatch, nothing in the '
             'library catches its error)', floor=30)
    for fam in SA:
        msgpath.dispatch_table(ctx, SERVER[fam], True)
    ctx.rule('C05.R2', 'connected-namespace gate (shared rule)', floor=4)
    ctx.rule('C05.R3', 'sid provenance (shared rule)', floor=2)
    ctx.rule('C05.R4', 'launch binding (shared rule)', floor=8)
    for fam in SA:
        launch_rules(ctx, fam)
    ctx.rule('C04.R6', 'the gate itself: is_connected answers true only '
             'for a member of the namespace\'s all-clients room that is not '
             'pending (a transport that never joined maps to sid None and '
             'must be refused) (shared rule)', floor=5)
    from .c04 import r6_manager
    r6_manager(ctx)
    ctx.rule('C12.R11', 'the msgpack decoder keeps the allocation limits '
             'tied to the length of the frame', floor=1)
    r11_msgpack_limits(ctx)
    ctx.rule('C12.R10', 'regular expressions in the codec have no nested '
             'unbounded repetition (controls built in)', floor=1)
    r10_regex_linear(ctx)
    ctx.rule('C12.R9', 'frames are ASCII JSON: relayed strings are escaped '
             'again', floor=2)
    r9_frames_are_ascii(ctx)
    ctx.rule('C12.R8', 'a placeholder dict never survives reconstruction as '
             'application data', floor=1)
    r8_placeholder_never_data(ctx)
    ctx.rule('C12.R7', 'the codec keeps no state outside the packet object '
             '(no shared decoder, no globals, no class-attribute writes)',
             floor=8)
    r7_codec_stateless(ctx)
    ctx.rule('C12.R6', 'answers of the message path go to the sender\'s '
             'own transport', floor=8)
    for fam in SA:
        r6_answers(ctx, fam)
    ctx.assume('engine.io wraps the message callback and contains its '
               'exceptions (trusted)')
    ctx.assume('global non-interference over all server states is NOT '
               'decided; the mechanisms named in the anchors are')
