"""C17 - class-based namespace helpers forward every argument.

R1 (K6 forwarding): for every helper of the four namespace classes (and the
shared BaseServerNamespace.rooms) the body returns, on its only path, the
result of the same-named method of the bound server/client; `await` iff the
delegate is a coroutine function; every helper parameter that the delegate
also has reaches the same-named delegate parameter as the bare name -
`namespace` as `namespace or self.namespace`; nothing else is passed.
R2 (K7): register_namespace binds the server/client and registers the object
under its own namespace.
"""
import ast

from ..model import AnalysisError
from ..sym import U, run_function
from ..util import bind_call, strip_await, where, same

HELPER_CLASSES = [
    ('Namespace', 'server', 'Server'),
    ('AsyncNamespace', 'server', 'AsyncServer'),
    ('ClientNamespace', 'client', 'Client'),
    ('AsyncClientNamespace', 'client', 'AsyncClient'),
]
NOT_HELPERS = {'trigger_event', 'is_asyncio_based', '__init__',
               '_set_server', '_set_client'}

# Parameters outside the property's domain by its own text
# ("parameters the underlying method does not have").  One symbol each.
VESTIGIAL = {('ClientNamespace', 'send', 'room'):
             'vestigial parameter: Client.send has no room parameter '
             '(excluded by the property statement)'}


def check_helper(ctx, cls, h, attr, delegate_cls):
    m = ctx.model
    construct = '%s.%s' % (cls.name, h.name)
    w = where(h)
    delegate = m.lookup(m.cls(delegate_cls), h.name)
    if delegate is None:
        ctx.bad(construct, 'no-delegate',
                'helper has no same-named method on %s' % delegate_cls, w)
        return
    run = run_function(h, m)
    paths = [p for p in run.paths]
    if len(paths) != 1 or paths[0].exit != 'return':
        ctx.bad(construct, 'shape',
                'helper must return the delegate result on its only path '
                '(found %d paths, exits %s)' % (
                    len(paths), sorted({p.exit for p in paths})), w)
        return
    p = paths[0]
    val = run.expand(p.value)
    awaited = isinstance(val, ast.Await)
    call = strip_await(val)
    want = 'self.%s.%s' % (attr, h.name)
    if not isinstance(call, ast.Call) or U(call.func) != want:
        ctx.bad(construct, 'delegate',
                'returned value is not the result of %s(...): %s'
                % (want, U(val)[:80]), w)
        return
    ctx.ok(construct, 'returns %s(...) unchanged' % want, w)
    # exactly one call to the delegate object, nothing else with effects
    other = [e for e in p.events if e.kind == 'call' and
             U(e.expr.func) != want]
    ctx.check(not other, construct, 'no other call in the helper',
              key='extra-call', reason='helper makes another call: %s'
              % ', '.join(U(e.expr)[:50] for e in other), where=w)
    ctx.check(awaited == delegate.is_async, construct,
              'await iff delegate is a coroutine function (%s)'
              % ('async' if delegate.is_async else 'sync'),
              key='await', reason='delegate %s is %s but the helper %s it'
              % (delegate.qualname, 'async' if delegate.is_async else 'sync',
                 'awaits' if awaited else 'does not await'), where=w)
    if delegate.is_async != h.is_async and h.name != 'session':
        ctx.bad(construct, 'asyncness', 'helper and delegate differ in '
                'being coroutine functions', w)
    b = bind_call(call, delegate)
    for e in b.errors:
        ctx.bad(construct, 'binding ' + e, 'call does not bind: ' + e, w)
    hparams = [x for x in h.params[1:]] + h.kwonly
    dparams = delegate.params[1:] + delegate.kwonly
    for hp in hparams:
        if hp not in dparams:
            if (cls.name, h.name, hp) in VESTIGIAL:
                ctx.info('%s parameter %s not forwarded: %s' % (
                    construct, hp, VESTIGIAL[(cls.name, h.name, hp)]))
                continue
            if delegate.kwarg or delegate.vararg:
                continue
            ctx.bad(construct, 'param-unknown ' + hp,
                    'helper parameter %s does not exist on the delegate'
                    % hp, w)
            continue
        got = b.get(hp)
        if got is None:
            ctx.bad(construct, 'dropped ' + hp,
                    'helper parameter %s is not passed to the delegate '
                    '(dropped)' % hp, w, witness=U(call))
            continue
        if hp == 'namespace':
            good = U(got) == 'namespace or self.namespace'
            ctx.check(good, construct,
                      'namespace forwarded as `namespace or self.namespace`',
                      key='namespace-fallback',
                      reason='namespace reaches the delegate as `%s`, not '
                      '`namespace or self.namespace`' % U(got), where=w)
        else:
            ctx.check(isinstance(got, ast.Name) and got.id == hp, construct,
                      'parameter %s reaches delegate parameter %s unchanged'
                      % (hp, hp), key='misforward ' + hp,
                      reason='delegate parameter %s receives `%s` instead of '
                      'the helper argument %s' % (hp, U(got), hp), where=w)
    # nothing may be passed that is not a helper parameter of the same name
    for dp, got in b.args.items():
        if dp in hparams:
            continue
        ctx.bad(construct, 'injected ' + dp,
                'delegate parameter %s is given `%s`, which is not a helper '
                'parameter' % (dp, U(got)), w)
    for k, v in b.extra_kw.items():
        ctx.bad(construct, 'injected ' + k,
                'keyword %s=%s is not a delegate parameter' % (k, U(v)), w)
    if b.star is not None or b.dstar is not None:
        if not (h.vararg or h.kwarg):
            ctx.bad(construct, 'star', 'star-argument forwarded without a '
                    'matching helper parameter', w)
    for dp in dparams:
        if dp not in hparams:
            ctx.info('%s does not expose delegate parameter %s (callers '
                     'cannot pass it; outside the property: nothing given '
                     'is dropped)' % (construct, dp))


def run(ctx):
    m = ctx.model
    ctx.rule('C17.R1', 'every helper forwards each shared parameter to the '
             'same-named delegate parameter unchanged, namespace as '
             '`namespace or self.namespace`, awaits iff the delegate is '
             'async, and returns the delegate result', floor=150)
    n_helpers = 0
    for cname, attr, dcls in HELPER_CLASSES:
        cls = m.cls(cname)
        for name, h in cls.methods.items():
            if name in NOT_HELPERS or name.startswith('on_'):
                continue
            n_helpers += 1
            check_helper(ctx, cls, h, attr, dcls)
    base = m.cls('BaseServerNamespace')
    for name, h in base.methods.items():
        if name in NOT_HELPERS:
            continue
        for dcls in ('Server', 'AsyncServer'):
            n_helpers += 1
            check_helper(ctx, base, h, 'server', dcls)
    if n_helpers < 29:
        raise AnalysisError('C17.R1 found only %d helpers (29 confirmed by '
                            'hand)' % n_helpers)
    # the documented helper set must exist
    required = {
        'Namespace': ['emit', 'send', 'call', 'enter_room', 'leave_room',
                      'close_room', 'get_session', 'save_session', 'session',
                      'disconnect'],
        'AsyncNamespace': ['emit', 'send', 'call', 'enter_room', 'leave_room',
                           'close_room', 'get_session', 'save_session',
                           'session', 'disconnect'],
        'ClientNamespace': ['emit', 'send', 'call', 'disconnect'],
        'AsyncClientNamespace': ['emit', 'send', 'call', 'disconnect'],
    }
    for cname, names in required.items():
        for n in names:
            if m.lookup(m.cls(cname), n) is None:
                ctx.bad('%s.%s' % (cname, n), 'helper-missing',
                        'documented helper is gone', None)
    ctx.extra['helpers_checked'] = n_helpers

    ctx.rule('C17.R2', 'register_namespace binds the server/client object '
             'and registers the handler under its own namespace', floor=4)
    for cname, setter, table in (('BaseServer', '_set_server',
                                  'namespace_handlers'),
                                 ('BaseClient', '_set_client',
                                  'namespace_handlers')):
        f = m.method(cname, 'register_namespace')
        r = run_function(f, m)
        normal = [p for p in r.paths if p.normal]
        construct = '%s.register_namespace' % cname
        if not normal:
            ctx.bad(construct, 'no-normal-path', 'never returns normally',
                    where(f))
            continue
        hp = f.params[1]
        for p in normal:
            sets = [e for e in p.calls(setter)
                    if e.recv() == hp and len(e.expr.args) == 1 and
                    U(e.expr.args[0]) == 'self']
            ctx.check(bool(sets), construct,
                      'binds itself with %s.%s(self)' % (hp, setter),
                      key='bind', where=where(f))
            st = [e for e in p.events if e.kind == 'store' and
                  U(e.expr) == 'self.%s[%s.namespace]' % (table, hp) and
                  U(e.extra) == hp]
            ctx.check(bool(st), construct,
                      'registers under the handler\'s own namespace',
                      key='register-key',
                      reason='no store self.%s[%s.namespace] = %s on a '
                      'normal path' % (table, hp, hp), where=where(f))
    for cname, setter, attr in (('BaseServerNamespace', '_set_server',
                                 'server'),
                                ('BaseClientNamespace', '_set_client',
                                 'client')):
        f = m.method(cname, setter)
        r = run_function(f, m)
        okk = all(any(e.kind == 'store' and U(e.expr) == 'self.' + attr and
                      U(e.extra) == f.params[1] for e in p.events)
                  for p in r.paths if p.normal) and r.paths
        ctx.check(okk, '%s.%s' % (cname, setter),
                  'stores its argument in self.%s' % attr, key='setter',
                  where=where(f))
    ctx.assume('Python call-binding semantics as re-implemented in '
               'sa/util.bind_call')
