"""C16 - user sessions are private to one client connection and namespace.

R1 get_session / save_session derive the engine.io session of
   eio_sid_from_sid(sid, ns) with ns = namespace or '/' and index it by that
   same ns.
R2 the session() context manager returns get_session(sid, ns) on entry and
   on exit - unconditionally - saves that object for the same sid/ns.
R3 a session ends with the namespace connection: either the namespace-end
   sites delete the namespace entry of the transport's session or admission
   resets it before the connect handler runs.
"""
import ast

from ..model import AnalysisError, FuncInfo
from ..known_names import KNOWN_NAMES
from ..sym import U, is_const, run_function
from ..util import bind_call, strip_await, where, SA, SERVER, walk_own
from .common import txt, trigger_calls

NS = "namespace or '/'"


def eio_session_of(run, node):
    """If node is ([await] self.eio.get_session(X)) return expanded X"""
    x = strip_await(run.expand(node))
    if isinstance(x, ast.Call) and U(x.func) == 'self.eio.get_session' and \
            len(x.args) == 1:
        return strip_await(x.args[0])
    return None


def r1(ctx, fam):
    m = ctx.model
    S = SERVER[fam]
    want_t = 'self.manager.eio_sid_from_sid(sid, %s)' % NS
    g = m.method(S, 'get_session')
    run = run_function(g, m)
    for p in run.paths:
        if not p.normal:
            continue
        v = strip_await(run.expand(p.value)) if p.value is not None else None
        good = isinstance(v, ast.Call) and \
            isinstance(v.func, ast.Attribute) and v.func.attr == 'setdefault'
        t = eio_session_of(run, v.func.value) if good else None
        good = good and t is not None and U(t) == want_t and \
            len(v.args) == 2 and U(v.args[0]) == NS and \
            isinstance(v.args[1], ast.Dict) and not v.args[1].keys
        ctx.check(good, S + '.get_session', 'returns engine.io session of '
                  'eio_sid_from_sid(sid, ns).setdefault(ns, {}) with ns = '
                  "namespace or '/'", key='get-key',
                  reason='get_session returns %s' % txt(v), where=where(g))
    s = m.method(S, 'save_session')
    run = run_function(s, m)
    for p in run.paths:
        if not p.normal:
            continue
        st = [e for e in p.events if e.kind == 'store']
        good = len(st) == 1 and isinstance(st[0].expr, ast.Subscript)
        t = eio_session_of(run, st[0].expr.value) if good else None
        good = good and t is not None and U(t) == want_t and \
            U(run.expand(st[0].expr.slice)) == NS and \
            U(st[0].extra) == s.params[2]
        ctx.check(good, S + '.save_session', 'stores the given session under '
                  'ns in the engine.io session of eio_sid_from_sid(sid, ns)',
                  key='save-key', reason='save_session stores %s'
                  % [(U(run.expand(e.expr)), U(e.extra)) for e in st],
                  where=where(s))


def r2(ctx, fam):
    m = ctx.model
    S = SERVER[fam]
    f = m.method(S, 'session')
    construct = S + '.session'
    run = run_function(f, m)
    cm = None
    for p in run.paths:
        v = p.value
        good = p.exit == 'return' and isinstance(v, ast.Call) and \
            isinstance(v.func, ast.Name) and v.func.id in f.nested and \
            [U(a) for a in v.args] == ['self', 'sid', 'namespace']
        ctx.check(good, construct, 'returns the context manager built from '
                  '(self, sid, namespace)', key='cm-args',
                  reason='session() returns %s' % txt(v), where=where(f))
        if good:
            cm = f.nested[v.func.id]
    if cm is None:
        return
    init = cm.methods.get('__init__')
    attr_of = {}
    if init:
        for n in walk_own(init.node):
            if isinstance(n, ast.Assign) and isinstance(n.value, ast.Name) \
                    and isinstance(n.targets[0], ast.Attribute):
                attr_of['self.' + n.targets[0].attr] = n.value.id

    def norm(x):
        t = U(x)
        return attr_of.get(t, t)
    ent = cm.methods.get('__aenter__' if fam == 'async' else '__enter__')
    ext = cm.methods.get('__aexit__' if fam == 'async' else '__exit__')
    if ent is None or ext is None:
        ctx.bad(construct, 'cm-protocol', 'context manager lacks '
                'enter/exit', where(f))
        return
    srv = m.method(S, 'get_session')
    run = run_function(ent, m)
    for p in run.paths:
        calls = p.calls('get_session')
        good = p.exit == 'return' and len(calls) == 1 and \
            norm(calls[0].expr.func.value) == 'server'
        if good:
            b = bind_call(calls[0].expr, srv)
            st = [e for e in p.events if e.kind == 'store' and
                  U(e.expr) == 'self.session' and
                  U(strip_await(run.expand(e.extra))) ==
                  U(run.expand(calls[0].expr))]
            rv = U(strip_await(run.expand(p.value)))
            good = norm(b.get('sid')) == 'sid' and \
                norm(b.get('namespace')) == 'namespace' and \
                len(st) == 1 and (rv == U(run.expand(calls[0].expr)) or
                                  rv == 'self.session')
        ctx.check(good, construct + '.<enter>', 'entry returns (and keeps) '
                  'get_session(sid, namespace) of the bound server',
                  key='enter', reason='enter does %s' % [
                      U(e.expr) for e in p.calls()], where=where(ent))
    sv = m.method(S, 'save_session')
    run = run_function(ext, m)
    ctx.check(len(run.paths) == 1 and run.paths[0].normal and (
        run.paths[0].exit == 'fall' or is_const(run.paths[0].value, None)
        or is_const(run.paths[0].value, False)),
        construct + '.<exit>', 'exit has one unconditional path and does '
        'not swallow exceptions', key='exit-unconditional',
        reason='exit has %d paths (%s)' % (len(run.paths), [
            p.describe()[:60] for p in run.paths]), where=where(ext))
    for p in run.paths:
        calls = p.calls('save_session')
        good = len(calls) == 1 and norm(calls[0].expr.func.value) == 'server'
        if good:
            b = bind_call(calls[0].expr, sv)
            good = norm(b.get('sid')) == 'sid' and \
                norm(b.get('namespace')) == 'namespace' and \
                U(b.get('session')) == 'self.session'
            if fam == 'async':
                good = good and any(e.kind == 'await' and
                                    isinstance(e.node, ast.Await) and
                                    e.node.value is calls[0].node
                                    for e in p.events)
        ctx.check(good, construct + '.<exit>', 'exit saves the entered '
                  'object for the same sid and namespace', key='exit-save',
                  reason='exit does %s' % [U(e.expr) for e in p.calls()],
                  where=where(ext))


def r3(ctx, fam):
    m = ctx.model
    S = SERVER[fam]
    # (a) reset on admission, before the connect handler
    f = m.method(S, '_handle_connect')
    run = run_function(f, m)

    def clears(run, e):
        """event e removes / resets the namespace entry of an engine.io
        session"""
        if e.kind == 'del' and isinstance(e.expr, ast.Subscript):
            return eio_session_of(run, e.expr.value) is not None
        if e.kind == 'store' and isinstance(e.expr, ast.Subscript) and \
                isinstance(e.extra, ast.Dict) and not e.extra.keys:
            return eio_session_of(run, e.expr.value) is not None
        if e.kind == 'call' and e.callee() == 'pop' and \
                isinstance(e.expr.func, ast.Attribute):
            return eio_session_of(run, e.expr.func.value) is not None
        return False
    admission = True
    seen = False
    for p in run.paths:
        for t in trigger_calls(p, 'connect'):
            seen = True
            if not any(clears(run, e) for e in p.events[:t.idx]):
                admission = False
    admission = admission and seen
    # (b) delete at every namespace-end site
    ends_ok = True
    for fname in ('disconnect', '_handle_disconnect', '_handle_connect'):
        g = m.method(S, fname)
        r = run_function(g, m)
        for p in r.paths:
            rel = [e for e in p.calls('disconnect')
                   if e.recv() == 'self.manager']
            if rel and not any(clears(r, e) for e in p.events):
                ends_ok = False
    ctx.check(admission or ends_ok, '%s.get_session/save_session' % S,
              'the namespace entry of the transport session is dropped when '
              'the namespace connection ends, or reset on admission',
              key='no delete on namespace end and no reset on admission',
              reason='the user session of a namespace outlives the '
              'namespace connection: after DISCONNECT + CONNECT of the same '
              'namespace on one transport the new sid reads the old '
              'session (no delete at the manager.disconnect sites, no reset '
              'in _handle_connect)', where=where(f))


def r4_ownership(ctx, fam):
    """only get_session / save_session touch the engine.io session of a
    transport (no other path reads or writes user sessions)"""
    m = ctx.model
    S = SERVER[fam]
    n = 0
    for cname in (S, 'BaseServer'):
        for f in m.cls(cname).methods.values():
            for node in walk_own(f.node):
                if isinstance(node, ast.Call) and U(node.func) in (
                        'self.eio.get_session', 'self.eio.save_session',
                        'self.eio.session'):
                    n += 1
                    # the accepted repair of F2 resets / deletes the
                    # namespace entry at admission or at namespace end
                    stmt = None
                    for st_ in walk_own(f.node):
                        if isinstance(st_, (ast.Expr, ast.Delete,
                                            ast.Assign)) and \
                                node in list(ast.walk(st_)):
                            stmt = st_
                    clearing = stmt is not None and (
                        isinstance(stmt, ast.Delete) or
                        (isinstance(stmt, ast.Expr) and '.pop(' in U(stmt))
                        or (isinstance(stmt, ast.Assign) and
                            isinstance(stmt.value, ast.Dict) and
                            not stmt.value.keys))
                    if clearing and f.name in ('_handle_connect',
                                               '_handle_disconnect',
                                               'disconnect'):
                        ctx.ok('%s.%s' % (cname, f.name), 'clears the '
                               'namespace entry of the session',
                               where(f, node))
                        continue
                    owner_ok = f.name in ('get_session', 'save_session')
                    if not owner_ok and f.name not in KNOWN_NAMES:
                        # a helper introduced later: it belongs to the
                        # accessors when nobody else calls it
                        callers = set()
                        for cn in (S, 'BaseServer'):
                            for g in m.cls(cn).methods.values():
                                for y in walk_own(g.node):
                                    if isinstance(y, ast.Call) and \
                                            isinstance(y.func,
                                                       ast.Attribute) and \
                                            y.func.attr == f.name:
                                        callers.add(g.name)
                        owner_ok = bool(callers) and callers <= {
                            'get_session', 'save_session'}
                    ctx.check(owner_ok,
                              '%s.%s' % (cname, f.name), 'engine.io session '
                              'accessed only by get_session/save_session',
                              key='session-owner', reason='%s reads or '
                              'writes the engine.io session directly'
                              % f.name, where=where(f, node))
    if n < 1:
        raise AnalysisError('C16.R4: session accessors not found in ' + S)
    # the manager never holds session data
    for cname in ('BaseManager',):
        for f in m.cls(cname).methods.values():
            for node in walk_own(f.node):
                if isinstance(node, ast.Attribute) and \
                        node.attr in ('get_session', 'save_session'):
                    ctx.bad('%s.%s' % (cname, f.name), 'session-in-manager',
                            'the manager touches user sessions',
                            where(f, node))


def run(ctx):
    ctx.rule('C16.R4', 'only get_session/save_session access the '
             'engine.io session', floor=2)
    for fam in SA:
        r4_ownership(ctx, fam)
    ctx.rule('C16.R1', 'get_session/save_session use the same transport '
             'derivation and the same namespace key', floor=4)
    for fam in SA:
        r1(ctx, fam)
    ctx.rule('C16.R2', 'session(): enter = get_session(sid, ns), exit '
             'unconditionally saves that object for the same sid/ns',
             floor=8)
    for fam in SA:
        r2(ctx, fam)
    ctx.rule('C04.R4', 'a refused duplicate CONNECT leaves the live '
             'connection (and its session) untouched; admission/refusal '
             'skeleton of _handle_connect (shared rule)', floor=20)
    from .c04 import r4_connect
    for fam in SA:
        r4_connect(ctx, fam)
    ctx.rule('C16.R3', 'a session ends with its namespace connection',
             floor=2)
    for fam in SA:
        r3(ctx, fam)
    ctx.assume('privacy across transports rests on engine.io keeping one '
               'session object per socket (trusted)')
