"""C11 - no residual server state once a client is gone.

R1 keyed-state pairing: every per-client table (derived from the stores the
   code makes: dict attributes of the server keyed by a transport id, dict
   attributes of the manager keyed by / holding a sid) is released for the
   ending client on every path of `_handle_eio_disconnect` (transport
   tables; exceptional exits included) / of `basic_disconnect` (sid tables),
   and `basic_disconnect` is reached from `_handle_eio_disconnect`.
R2 exception-safe release: after `pre_disconnect` the matching
   `manager.disconnect` happens on every exit, exceptional ones included; a
   raising handler in one namespace neither skips the remaining namespaces
   nor the transport tables.
R3 emptied containers are collected.
R4 background-task registry entries are discarded when the task is done.
R5 a refused (duplicate) admission leaves no membership behind.
R6 room membership only for a connected client, nothing on failure: when
   basic_enter_room is asked to add a sid without being handed its transport
   id, the id it stores comes from a lookup in the namespace's all-clients
   room that fails for an unknown sid (or is tested against None), and no
   container has been created before that lookup (a failed entry leaves no
   empty room behind).
"""
import ast

from ..model import AnalysisError
from ..sym import U, is_const, run_function, base_path
from ..util import bind_call, strip_await, where, SA, SERVER, MANAGER
from .common import effects, txt

TRANSPORT_KEYS = ('eio_sid',)
SID_KEYS = ('sid',)


def dict_attrs_of_init(m, cname):
    f = m.method(cname, '__init__')
    out = []
    for n in m._walk_own(f.node):
        if not isinstance(n, ast.Assign):
            continue
        v = n.value
        # any growable container created empty: a mapping, or a set / list /
        # deque (a set of (transport, ...) tuples is a per-client table too)
        is_map = (isinstance(v, ast.Dict) and not v.keys) or (
            isinstance(v, (ast.List, ast.Set)) and not v.elts) or (
            isinstance(v, ast.Call) and not v.args and
            U(v.func).split('.')[-1] in ('set', 'list', 'deque')) or (
            isinstance(v, ast.Call) and U(v.func).split('.')[-1] in (
                'dict', 'defaultdict', 'OrderedDict', 'WeakValueDictionary'))
        if is_map:
            for t in n.targets:
                if isinstance(t, ast.Attribute) and U(t.value) == 'self':
                    out.append(t.attr)
    return out




def _class_events(m, cname):
    """[(FuncInfo, Run, Event, expanded target/receiver ast, value names)]
    for every store / mutating call in the methods of cname"""
    cache = m.__dict__.setdefault('_c11_uses_cache', {})
    if cname in cache:
        return cache[cname]
    out = []
    c = m.cls(cname)
    for f in c.methods.values():
        if f.name == '__init__':
            continue
        try:
            run = run_function(f, m, max_iter=1, max_paths=50000)
        except AnalysisError:
            continue
        seen = set()
        for p in run.paths:
            for e in p.events:
                tgt = None
                if e.kind == 'store' and isinstance(e.expr, ast.Subscript):
                    tgt = run.expand(e.expr)
                elif e.kind == 'call' and e.callee() in (
                        'append', 'add', 'setdefault', 'update') and \
                        isinstance(e.expr.func, ast.Attribute):
                    tgt = run.expand(e.expr)
                if tgt is None:
                    continue
                key = (e.lineno, U(tgt))
                if key in seen:
                    continue
                seen.add(key)
                out.append((f, e, tgt))
    cache[cname] = out
    return out


def table_uses(m, classes, attr):
    """(FuncInfo, node, names) for stores into self.<attr>[...]... and
    mutating method calls on it, in the given classes - read off the
    enumerated paths with locals expanded, so that an alias such as
    `ns_rooms = self.rooms.setdefault(namespace, {})` is seen through."""
    uses = []
    for cname in classes:
        for f, e, tgt in _class_events(m, cname):
            if base_path(tgt) != 'self.' + attr and not (
                    isinstance(tgt, ast.Call) and
                    base_path(tgt.func.value) == 'self.' + attr):
                # alias of a setdefault()/get() result of the table
                t = U(tgt)
                if not t.startswith('self.%s.setdefault(' % attr) and \
                        not t.startswith('self.%s[' % attr):
                    continue
            names = {x.id.split('\xa7')[0] for x in ast.walk(tgt)
                     if isinstance(x, ast.Name)}
            uses.append((f, e.node, names))
    return uses


def released(run, p, table_txt, key_txt, extra_absent=()):
    """Does path p release <table>[key] ?  Accepted idioms: del t[k];
    t.pop(k, ...); t[k].remove/discard; whole reset; or a path fact that
    implies absence (`k in t` false)."""
    for e in p.events:
        if e.kind == 'del':
            x = U(run.expand(e.expr))
            if x == '%s[%s]' % (table_txt, key_txt):
                return 'del'
        if e.kind == 'call' and e.callee() in ('pop', 'discard', 'remove'):
            x = run.expand(e.expr)
            if U(x.func.value) == table_txt and x.args and \
                    U(x.args[0]) == key_txt:
                return 'pop'
            # composite key (client id, ...): accepted when it is executed on
            # the path at all - a path that skips it (e.g. the loop around
            # it runs zero times) is not a release
            if U(x.func.value) == table_txt and x.args and \
                    isinstance(x.args[0], ast.Tuple) and any(
                        U(el) == key_txt for el in x.args[0].elts):
                return 'pop-composite'
        if e.kind == 'store' and U(e.expr) == table_txt and \
                isinstance(e.extra, (ast.SetComp, ast.ListComp, ast.DictComp)) \
                and any(isinstance(n, ast.Name) and n.id.split('\xa7')[0] ==
                        key_txt for n in ast.walk(e.extra)):
            return 'filter'
        if e.kind == 'store' and U(e.expr) == table_txt and \
                isinstance(e.extra, ast.Dict) and not e.extra.keys:
            return 'reset'
        if e.kind == 'call' and e.callee() == 'clear' and \
                U(run.expand(e.expr).func.value) == table_txt:
            return 'reset'
    for c in p.conds:
        t = U(run.expand(c.atom))
        if not c.pol and t == '%s in %s' % (key_txt, table_txt):
            return 'absent'
        if not c.pol and t in extra_absent:
            return 'absent'
    return None


def indexes_foreign_data(stmt):
    """statement raiser for the release sequences: a simple statement that
    indexes data reached through a local object (a packet taken out of a
    table, a parameter) - `pkt.data[0]`, `x[k]` - may raise on input the
    client controls (payload None, empty list, dict).  Indexing one of the
    server's own tables (`self.<table>[...]`) is not counted here: the table
    rules treat those."""
    for n in ast.walk(stmt):
        if isinstance(n, ast.Subscript) and isinstance(n.ctx, ast.Load):
            root = n.value
            while isinstance(root, (ast.Attribute, ast.Subscript, ast.Call)):
                root = root.func if isinstance(root, ast.Call) else root.value
            if isinstance(root, ast.Name) and root.id != 'self':
                return {'TypeError', 'IndexError', 'KeyError'}
    return None


def r1_transport_tables(ctx, fam):
    m = ctx.model
    eff = effects(ctx)
    S = SERVER[fam]
    tables = []
    for attr in dict_attrs_of_init(m, 'BaseServer'):
        uses = table_uses(m, ['BaseServer', S], attr)
        if any(names & set(TRANSPORT_KEYS) for _, _, names in uses):
            tables.append(attr)
    if len(tables) < 2:
        raise AnalysisError('C11.R1 derived only %s as per-transport tables '
                            'of %s (environ and _binary_packet confirmed by '
                            'hand)' % (tables, S))
    f = m.method(S, '_handle_eio_disconnect')
    key = f.params[1]
    run = run_function(f, m, raiser=eff.app_raiser(f),
                       stmt_raiser=indexes_foreign_data)
    for attr in tables:
        bad = None
        how = set()
        for p in run.paths:
            r = released(run, p, 'self.' + attr, key)
            if r is None:
                bad = p
                break
            how.add(r)
        ctx.check(bad is None, '%s._handle_eio_disconnect' % S,
                  'per-transport table %s[%s] released on every exit (%s)'
                  % (attr, key, '/'.join(sorted(how))),
                  key='table %s no-delete' % attr,
                  reason='self.%s[%s] is not released on path %s%s' % (
                      attr, key, bad.describe()[:200] if bad else '',
                      ' (the exception is raised at line %d: %s)' % (
                          bad.origin.lineno, U(bad.origin.node)[:70])
                      if bad is not None and bad.exit == 'exc' and
                      bad.origin is not None else ''),
                  where=where(f), witness='table ' + attr)
    ctx.extra.setdefault('derived_tables', {})[S] = tables


def r1_sid_tables(ctx):
    m = ctx.model
    tables = {}
    for attr in dict_attrs_of_init(m, 'BaseManager'):
        uses = table_uses(m, ['BaseManager', 'Manager', 'AsyncManager'],
                          attr)
        for f, n, names in uses:
            if names & set(SID_KEYS):
                tables.setdefault(attr, []).append((f, n))
    if set(tables) < {'rooms', 'callbacks', 'pending_disconnect'}:
        raise AnalysisError('C11.R1 derived only %s as per-sid manager '
                            'tables' % sorted(tables))
    f = m.method('BaseManager', 'basic_disconnect')
    sid, ns = f.params[1:3]
    run = run_function(f, m, loop_iters={})
    construct = 'BaseManager.basic_disconnect'
    absent_ns = ('%s in self.rooms' % ns,)
    for attr in sorted(tables):
        bad = None
        for p in run.paths:
            if not p.normal:
                continue
            if attr == 'rooms':
                # membership removal: the leave loop (shape: C03.R5) or the
                # namespace is absent
                ok = any(not c.pol and
                         U(run.expand(c.atom)) == absent_ns[0]
                         for c in p.conds) or any(
                    e.kind == 'iter' and
                    'self.rooms[%s]' % ns in U(run.expand(e.expr))
                    for e in p.events)
            elif attr == 'pending_disconnect':
                ok = released(run, p, 'self.%s[%s]' % (attr, ns), sid,
                              absent_ns + ('%s in self.pending_disconnect'
                                           % ns,)) is not None
            else:
                ok = released(run, p, 'self.' + attr, sid,
                              absent_ns) is not None
            if not ok:
                bad = p
                break
        ctx.check(bad is None, construct, 'per-sid table %s released for '
                  'the ending sid on every normal path' % attr,
                  key='table %s no-delete' % attr,
                  reason='%s keeps the sid on path %s' % (
                      attr, bad.describe()[:200] if bad else ''),
                  where=where(f), witness='table ' + attr)
    ctx.extra.setdefault('derived_tables', {})['BaseManager'] = sorted(tables)
    # any other per-sid table written by the managers must be released too
    # (it is: the derivation above covers every dict attribute of __init__)
    # the release must be reachable from transport end, with own arguments
    for fam in SA:
        S, M = SERVER[fam], MANAGER[fam]
        top = m.method(S, '_handle_eio_disconnect')
        reach = m.reachable(top)
        ctx.check(f in reach, S + '._handle_eio_disconnect',
                  'basic_disconnect is reachable from transport end',
                  key='unreachable', reason='basic_disconnect is no longer '
                  'reachable from %s._handle_eio_disconnect' % S,
                  where=where(top))
        d = m.method(M, 'disconnect')
        r = run_function(d, m)
        for p in r.paths:
            if not p.normal:
                continue
            calls = p.calls('basic_disconnect')
            good = False
            for e in calls:
                b = bind_call(e.expr, f)
                good = good or (txt(b.get('sid')) == d.params[1] and
                                txt(b.get('namespace')) == d.params[2])
            ctx.check(good, M + '.disconnect', 'forgets (sid, namespace) '
                      'through basic_disconnect', key='delegate',
                      reason='%s.disconnect does not call basic_disconnect '
                      '(sid, namespace) on a normal path' % M, where=where(d))


def r2_exception_safe(ctx, fam):
    m = ctx.model
    eff = effects(ctx)
    S = SERVER[fam]
    for fname in ('disconnect', '_handle_disconnect', '_handle_connect'):
        f = m.method(S, fname)
        construct = '%s.%s' % (S, fname)
        run = run_function(f, m, raiser=eff.app_raiser(f))
        n = 0
        bad = None
        for p in run.paths:
            marks = [e for e in p.calls('pre_disconnect')
                     if e.recv() == 'self.manager']
            for mk in marks:
                n += 1
                b = bind_call(mk.expr, m.method(MANAGER[fam],
                                                'pre_disconnect'))
                want = (txt(run.expand(b.get('sid'))),
                        txt(run.expand(b.get('namespace'))))
                rel = False
                for e in p.calls('disconnect'):
                    if e.recv() != 'self.manager' or e.idx < mk.idx:
                        continue
                    b2 = bind_call(e.expr, m.method(MANAGER[fam],
                                                    'disconnect'))
                    got = (txt(run.expand(b2.get('sid'))),
                           txt(run.expand(b2.get('namespace'))))
                    rel = rel or got == want
                if not rel and bad is None:
                    bad = (p, mk)
        if fname != '_handle_connect' and not n:
            ctx.bad(construct, 'no-mark', 'function no longer marks the '
                    'client with pre_disconnect', where(f), rid='C11.R2')
            continue
        if n:
            ctx.check(bad is None, construct, 'pre_disconnect is followed '
                      'by manager.disconnect(same sid, namespace) on every '
                      'exit, exceptional exits included',
                      key='raiser between mark and release',
                      reason='a client marked as disconnecting is never '
                      'released when %s; path %s' % (
                          'the call at line %d raises' % bad[0].origin.lineno
                          if bad and bad[0].exit == 'exc' and bad[0].origin
                          else 'the path ends', bad[0].describe()[:160]
                          if bad else ''),
                      where=where(f, bad[1].node if bad else None),
                      rid='C11.R2')
    # the namespace loop survives a raising handler
    f = m.method(S, '_handle_eio_disconnect')
    construct = S + '._handle_eio_disconnect'
    run = run_function(f, m, raiser=eff.app_raiser(f))
    esc = [p for p in run.paths if p.exit == 'exc' and p.origin is not None
           and p.origin.callee() == '_handle_disconnect']
    ctx.check(not esc, construct, 'an exception from one namespace\'s '
              'disconnect does not leave the loop over the namespaces',
              key='raiser in the namespace loop skips',
              reason='an exception raised by _handle_disconnect for one '
              'namespace escapes the loop: the client\'s remaining '
              'namespaces are never ended', where=where(f), rid='C11.R2')
    for n in ast.walk(f.node):
        if isinstance(n, ast.ExceptHandler):
            for s in ast.walk(n):
                if isinstance(s, (ast.Break, ast.Return)):
                    ctx.bad(construct, 'handler-leaves-loop', 'the handler '
                            'of the namespace loop leaves it', where(f, s),
                            rid='C11.R2')
    # ... and it is contained INSIDE the loop: a handler around the whole
    # loop swallows the exception but ends the iteration all the same
    loops = [l for l in ast.walk(f.node)
             if isinstance(l, (ast.For, ast.AsyncFor, ast.While)) and any(
                 isinstance(c, ast.Call) and
                 U(c.func).endswith('_handle_disconnect')
                 for b in l.body for c in ast.walk(b))]
    for l in loops:
        inside = any(
            isinstance(t, ast.Try) and any(
                h.type is None or U(h.type) in ('Exception', 'BaseException')
                for h in t.handlers) and any(
                isinstance(c, ast.Call) and
                U(c.func).endswith('_handle_disconnect')
                for b in t.body for c in ast.walk(b))
            for b in l.body for t in ast.walk(b))
        ctx.check(inside, construct, 'the handler that contains a failing '
                  'namespace lies inside the loop over the namespaces',
                  key='namespace loop contained outside', reason='an '
                  'exception raised while one namespace of the ending '
                  'transport is disconnected is caught only outside the '
                  'loop over the namespaces: it is swallowed, but the loop '
                  'is over - the namespaces not yet reached keep the client '
                  'in their rooms and go on delivering to it',
                  where=where(f, l), rid='C11.R2')


def r3_collect(ctx):
    m = ctx.model
    f = m.method('BaseManager', 'basic_leave_room')
    sid, ns, room = f.params[1:4]
    construct = 'BaseManager.basic_leave_room'
    run = run_function(f, m)
    t_room = 'self.rooms[%s][%s]' % (ns, room)
    t_ns = 'self.rooms[%s]' % ns

    def empty_cond(c, t):
        x = U(run.expand(c.atom))
        if x == 'len(%s) == 0' % t:
            return c.pol
        if x == t:
            return not c.pol
        return None
    seen_room = seen_ns = 0
    for p in run.paths:
        if not p.normal:
            continue
        dels = [U(run.expand(e.expr)) for e in p.events if e.kind == 'del']
        pops = [U(run.expand(e.expr)) for e in p.calls('pop')]
        removed = ('%s[%s]' % (t_room, sid)) in dels or \
            ('%s.pop(%s' % (t_room, sid)) in ''.join(pops)
        for c in p.conds:
            if empty_cond(c, t_room):
                seen_room += 1
                ctx.check(t_room in dels or any(
                    x.startswith('%s.pop(%s' % (t_ns, room)) for x in pops),
                    construct, 'an emptied room is deleted',
                    key='keep-empty-room', reason='a room left empty stays '
                    'in rooms[namespace]', where=where(f))
            if empty_cond(c, t_ns):
                seen_ns += 1
                ctx.check(t_ns in dels or any(
                    x.startswith('self.rooms.pop(%s' % ns) for x in pops),
                    construct, 'an emptied namespace is deleted',
                    key='keep-empty-namespace', reason='a namespace left '
                    'without rooms stays in rooms', where=where(f))
        if not removed and not any(e.kind == 'caught' for e in p.events):
            ctx.bad(construct, 'no-removal', 'a normal path does not remove '
                    'the sid from the room: ' + p.describe()[:120], where(f))
    if not seen_room or not seen_ns:
        ctx.bad(construct, 'no-collection', 'basic_leave_room no longer '
                'tests for emptied rooms/namespaces', where(f))
    f = m.method('BaseManager', 'basic_disconnect')
    sid, ns = f.params[1:3]
    run = run_function(f, m)
    t = 'self.pending_disconnect[%s]' % ns
    seen = 0
    for p in run.paths:
        if not p.normal:
            continue
        dels = [U(run.expand(e.expr)) for e in p.events if e.kind == 'del']
        for c in p.conds:
            x = U(run.expand(c.atom))
            if (x == 'len(%s) == 0' % t and c.pol) or (x == t and not c.pol
                                                       and False):
                seen += 1
                ctx.check(t in dels, 'BaseManager.basic_disconnect',
                          'an emptied pending_disconnect list is deleted',
                          key='keep-empty-pending', where=where(f))
    if not seen:
        ctx.bad('BaseManager.basic_disconnect', 'no-collection',
                'emptied pending_disconnect[namespace] is not collected',
                where(f))


def r4_task_registry(ctx):
    m = ctx.model
    n = 0
    for f in m.funcs:
        adds = [c for c in m._walk_own(f.node) if isinstance(c, ast.Call)
                and isinstance(c.func, ast.Attribute) and c.func.attr == 'add'
                and U(c.func.value) == 'task_reference_holder']
        if not adds:
            continue
        run = run_function(f, m)
        for p in run.paths:
            for e in p.calls('add'):
                if e.recv() != 'task_reference_holder':
                    continue
                n += 1
                task = U(e.expr.args[0])
                paired = [x for x in p.calls('add_done_callback')
                          if x.recv() == task and
                          U(x.expr.args[0]) == 'task_reference_holder.discard']
                ctx.check(bool(paired), f.qualname, 'background task '
                          'reference is discarded when the task is done',
                          key='registry-leak', reason='task added to '
                          'task_reference_holder without a done-callback '
                          'discard', where=where(f, e.node))
    if not n:
        ctx.info('no task_reference_holder.add sites found')


def r5_admission_rollback(ctx):
    """a refused (duplicate) admission leaves no membership behind: on the
    paths of BaseManager.connect that return None every completed room
    entry is undone."""
    m = ctx.model
    f = m.method('BaseManager', 'connect')
    construct = 'BaseManager.connect'

    def raiser(e):
        if e.callee() == 'basic_enter_room':
            return {'ValueDuplicationError'}
        return None
    run = run_function(f, m, raiser=raiser, max_iter=2)
    n = 0
    for p in run.paths:
        if not (p.exit == 'return' and is_const(p.value, None)):
            continue
        n += 1
        failed = {id(e.extra.origin) for e in p.events
                  if e.kind == 'caught' and e.extra is not None and
                  e.extra.origin is not None}
        done = [e for e in p.calls('basic_enter_room')
                if id(e) not in failed]
        undone = p.calls('basic_leave_room')
        ctx.check(len(done) <= len(undone), construct, 'refused admission '
                  '(None returned): no room entry survives', key='rollback',
                  reason='a duplicate connection is refused after %d room '
                  'entr%s for the freshly generated sid had already been '
                  'made and nothing removes %s: the orphan sid stays in '
                  'rooms forever' % (len(done), 'y' if len(done) == 1
                                     else 'ies', 'it' if len(done) == 1
                                     else 'them'), where=where(f))
    if not n:
        ctx.bad(construct, 'no-refusal-path', 'connect has no path that '
                'refuses a duplicate', where(f))


def in_rooms(text):
    return text.startswith('self.rooms[') or \
        text.startswith('self.rooms.setdefault(')


def r8_no_autovivification(ctx):
    """a per-client table that creates entries on read (defaultdict, a
    __missing__ hook) brings back what the release removed: any later
    `table[key]` read for the departed client - a late handler, a racing
    CONNECT - leaves a fresh entry that nothing releases again.  The derived
    per-client tables are therefore plain dicts wherever the code reads them
    by subscript."""
    m = ctx.model
    n = 0
    for cname, fams in (('BaseServer', ('Server', 'AsyncServer')),
                        ('BaseManager', ('Manager', 'AsyncManager',
                                         'PubSubManager',
                                         'AsyncPubSubManager'))):
        f = m.method(cname, '__init__')
        for a in m._walk_own(f.node):
            if not isinstance(a, ast.Assign) or not isinstance(a.value,
                                                                ast.Call):
                continue
            fn = U(a.value.func).split('.')[-1]
            if fn not in ('defaultdict',):
                continue
            for t in a.targets:
                if not (isinstance(t, ast.Attribute) and
                        U(t.value) == 'self'):
                    continue
                attr = t.attr
                reads = []
                for cn in (cname,) + fams:
                    for g in m.cls(cn).methods.values():
                        for x in m._walk_own(g.node):
                            if isinstance(x, ast.Subscript) and \
                                    isinstance(x.ctx, ast.Load) and \
                                    U(x.value) == 'self.' + attr:
                                reads.append((g, x))
                n += 1
                ctx.check(not reads, cname + '.__init__', 'table %s does not '
                          'create entries when it is read' % attr,
                          key='autovivify ' + attr, reason='self.%s is a '
                          'defaultdict and is read by subscript (%s.%s line '
                          '%d): a read for a client whose entry was released '
                          're-creates the entry, which is never released '
                          'again' % (attr, reads[0][0].cls.name if reads
                                     else '', reads[0][0].name if reads
                                     else '', reads[0][1].lineno if reads
                                     else 0), where=where(f, a))
    if not n:
        ctx.ok('BaseServer/BaseManager.__init__', 'no per-client table is an '
               'auto-vivifying mapping', 'src/socketio/base_server.py')


def r6_member_only(ctx):
    m = ctx.model
    f = m.method('BaseManager', 'basic_enter_room')
    construct = 'BaseManager.basic_enter_room'
    if f.params[1:] != ['sid', 'namespace', 'room', 'eio_sid']:
        raise AnalysisError(construct + ' signature changed')
    run = run_function(f, m)
    n = 0
    for p in run.paths:
        if not p.normal:
            continue
        given = None
        for c in p.conds:
            if U(run.expand(c.atom)) == 'eio_sid is None':
                given = not c.pol
        if given is not False:
            continue
        stores = [e for e in p.events if e.kind == 'store' and
                  isinstance(e.expr, ast.Subscript) and
                  in_rooms(U(run.expand(e.expr))) and
                  U(run.expand(e.expr.slice)) == 'sid']
        if not stores:
            continue
        n += 1
        e = stores[-1]
        v = e.extra
        d = run.symdefs.get(v.id) if isinstance(v, ast.Name) else None
        x = strip_await(run.expand(v))
        failing = isinstance(x, ast.Subscript) and U(x.slice) == 'sid' and \
            U(x).startswith('self.rooms[') and '[None]' in U(x)
        tested = any(not c.pol and isinstance(run.expand(c.atom),
                                              ast.Compare) and
                     U(c.atom) == '%s is None' % U(v) for c in p.conds) or \
            any(c.pol and U(run.expand(c.atom)) in (
                'sid in self.rooms[namespace][None]',
                'self.is_connected(sid, namespace)') for c in p.conds)
        ctx.check(failing or tested, construct, 'the transport id stored for '
                  'the sid is proof that the sid is connected (failing '
                  'lookup in rooms[namespace][None] or a None test)',
                  key='member-proof', reason='the sid is added to the room '
                  'with transport id %s, which exists (as None) for a sid '
                  'that is not connected: a late enter_room() for a client '
                  'that has gone leaves a membership nothing removes'
                  % txt(x), where=where(f, e.node))
        if failing and d is not None:
            ns_known = any(c.pol and U(run.expand(c.atom)) ==
                           'namespace in self.rooms' for c in p.conds)
            early = []
            for s in p.events[:d['at']]:
                if s.kind == 'store' and in_rooms(U(run.expand(s.expr))):
                    early.append(s)
                elif s.kind == 'call' and s.callee() == 'setdefault' and \
                        in_rooms(U(run.expand(s.expr))):
                    top = U(run.expand(s.expr.func.value)) == 'self.rooms'
                    if not (top and ns_known):
                        early.append(s)
            ctx.check(not early, construct, 'no container is created before '
                      'the lookup that fails for an unknown sid',
                      key='residue-on-failure', reason='%s is created (line '
                      '%d) before the sid is looked up: when the lookup '
                      'fails (client already gone) the empty container '
                      'stays and keeps its namespace alive'
                      % (txt(run.expand(early[0].expr)) if early else '',
                         early[0].lineno if early else 0),
                      where=where(f, early[0].node if early else None))
    if not n:
        ctx.bad(construct, 'no-join-path', 'no path adds a sid whose '
                'transport id was not handed in', where(f))


def run(ctx):
    ctx.rule('C11.R6', 'room membership only for a connected client; a '
             'failed entry creates nothing', floor=2)
    r6_member_only(ctx)
    ctx.rule('C11.R5', 'a refused admission leaves no membership behind',
             floor=1)
    r5_admission_rollback(ctx)
    ctx.rule('C11.R1', 'every derived per-client table is released at '
             'transport end / in basic_disconnect on every path', floor=9)
    for fam in SA:
        r1_transport_tables(ctx, fam)
    r1_sid_tables(ctx)
    ctx.rule('C11.R2', 'release is exception-safe: mark -> release on every '
             'exit; a raising handler does not skip namespaces', floor=6)
    for fam in SA:
        r2_exception_safe(ctx, fam)
    ctx.rule('C11.R7', 'asyncio: a CancelledError raised by an application '
             'coroutine does not abandon the transport-loss loop (it is '
             'contained where the handler is awaited; `except Exception` in '
             'the loop does not catch it)', floor=2)
    from .c15 import cancelled_contained_from
    top = ctx.model.method('AsyncServer', '_handle_eio_disconnect')
    loop_catches = any(
        isinstance(t, ast.Try) and any(
            (h.type is None or 'BaseException' in U(h.type) or
             'CancelledError' in U(h.type)) and
            not any(isinstance(y, ast.Raise) for y in ast.walk(h))
            for h in t.handlers) and any(
            isinstance(c, ast.Call) and U(c.func).endswith(
                '_handle_disconnect') for c in ast.walk(t))
        for t in ast.walk(top.node))
    k = 2 if loop_catches else cancelled_contained_from(
        ctx, top, 'is not an Exception: it leaves the loop over the '
        'namespaces of the ending transport, and the namespaces not yet '
        'reached keep the client in their rooms, with its callbacks, for '
        'ever', only=lambda f: f.cls is not None and f.cls.name in (
            'AsyncServer', 'AsyncNamespace', 'BaseServer'))
    if loop_catches:
        ctx.ok('AsyncServer._handle_eio_disconnect', 'the per-namespace '
               'handler of the loop catches CancelledError itself',
               where(top))
        ctx.ok('AsyncServer._handle_eio_disconnect', 'same', where(top))
    if k < 2:
        raise AnalysisError('C11.R7 found only %d awaited application '
                            'coroutines on the transport-loss path' % k)
    ctx.rule('C04.R2', 'a client is marked as disconnecting once: the mark '
             'and the handler are dominated by a true connected-test on the '
             'same (sid, namespace); a second mark of a client that is '
             'already being disconnected leaves a pending_disconnect entry '
             'that nothing removes (shared rule)', floor=12)
    ctx.rule('C04.R1', 'asyncio: no suspension between test and mark '
             '(shared rule)', floor=2)
    from .c04 import r1_r2_site
    for fam in SA:
        for fname in ('disconnect', '_handle_disconnect'):
            r1_r2_site(ctx, fam, fname)
    ctx.rule('C11.R8', 'no per-client table creates entries on read',
             floor=1)
    r8_no_autovivification(ctx)
    ctx.rule('C11.R3', 'emptied rooms / namespaces / pending lists are '
             'collected', floor=3)
    r3_collect(ctx)
    ctx.rule('C11.R4', 'background-task registry entries are discarded',
             floor=0)
    r4_task_registry(ctx)
    ctx.assume('raisers are the calls that can reach application code '
               '(handlers, callbacks, class-based namespaces), computed '
               'over the call graph; engine.io sends are not raisers')
    ctx.assume('a sid lives in one namespace whose rooms entry exists while '
               'it is connected (namespace absent => no per-sid state)')
    ctx.assume('memory growth as such is NOT decided')
