"""C07 - multi-host pub/sub: structure only.  Equivalence of a cluster with
one server over all placements and channel delays is NOT decided.

R1 message schema agreement: each published `method` has a dispatch arm in
   the listener and a writer for each arm; every field the handler of a
   method reads is a key of every literal published with that method;
   every published literal except the callback relay carries
   'host_id': self.host_id.
R2 echo filter: the room/emit/disconnect handlers run in the listener only
   under `data.get('host_id') != self.host_id`.
R3 callbacks complete only at home.
R4 apply locally once, publish once (local first); ignore_queue: local only;
   enter/leave: local xor publish decided by is_connected.
R5 remote room operations mutate only where the client lives.
R6 callback token: 3-tuple (room, namespace, id) written, arity tested by
   the reader, unpacked into _return_callback(host_id, sid, namespace,
   callback_id, *args); _handle_emit forwards the message's own fields.
"""
import ast

from ..model import AnalysisError
from ..sym import U, is_const, Run, run_function
from ..util import (bind_call, strip_await, where, SA, MANAGER, PUBSUB,
                    walk_own)
from .common import txt

METHODS = ['emit', 'disconnect', 'enter_room', 'leave_room', 'close_room']


def _as_message(node):
    """{key: value ast} of a message expression: a dict display, or
    dict(<display>, k=v, ...) / dict(k=v, ...)"""
    if isinstance(node, ast.Dict):
        if all(isinstance(k, ast.Constant) for k in node.keys):
            return {k.value: v for k, v in zip(node.keys, node.values)}
        return None
    if isinstance(node, ast.Call) and U(node.func) == 'dict' and \
            len(node.args) <= 1 and all(k.arg for k in node.keywords):
        base = {}
        if node.args:
            base = _as_message(node.args[0])
            if base is None:
                return None
        base = dict(base)
        for k in node.keywords:
            base[k.arg] = k.value
        return base
    return None


def published_literals(m, cname):
    """[(FuncInfo, node, method value, {key: value ast})] for every message
    a method of the class builds: dict displays carrying a constant 'method'
    and - looking through helpers introduced later - whatever expression
    reaches a _publish / _handle_<method> call as its message on some path"""
    out = []
    seen = set()
    c = m.cls(cname)
    for f in c.methods.values():
        for n in walk_own(f.node):
            if isinstance(n, ast.Dict):
                keys = {k.value: v for k, v in zip(n.keys, n.values)
                        if isinstance(k, ast.Constant)}
                if 'method' in keys and isinstance(keys['method'],
                                                   ast.Constant):
                    out.append((f, n, keys['method'].value, keys))
                    seen.add((f.name, keys['method'].value))
    from ..known_names import KNOWN_NAMES
    for f in c.methods.values():
        if f.name not in KNOWN_NAMES or not any(
                isinstance(n, ast.Call) and U(n.func) == 'self._publish'
                for n in walk_own(f.node)):
            continue
        try:
            run = run_function(f, m, max_iter=1)
        except AnalysisError:
            continue
        for p in run.paths:
            for e in p.calls('_publish'):
                if not e.expr.args:
                    continue
                msg = _as_message(strip_await(run.expand(e.expr.args[0])))
                if not msg or not isinstance(msg.get('method'),
                                             ast.Constant):
                    continue
                meth = msg['method'].value
                if (f.name, meth) in seen:
                    continue
                seen.add((f.name, meth))
                out.append((f, e.node, meth, msg))
    return out


def reads_of(f, param):
    """(required keys, optional keys) read from parameter `param`"""
    req, opt = set(), set()
    for n in walk_own(f.node):
        if isinstance(n, ast.Subscript) and U(n.value) == param and \
                isinstance(n.slice, ast.Constant):
            req.add(n.slice.value)
        if isinstance(n, ast.Call) and U(n.func) == param + '.get' and \
                n.args and isinstance(n.args[0], ast.Constant):
            opt.add(n.args[0].value)
    return req, opt


def method_oracle(method, own):
    """listener oracle: a dict message with the given method; own: does it
    carry this host's id?"""
    def oracle(atom, run, st):
        a = run.expand(atom)
        t = U(a)
        if isinstance(a, ast.Compare) and isinstance(a.ops[0], ast.Eq):
            l, r = U(a.left), a.comparators[0]
            if l.endswith("['method']") and isinstance(r, ast.Constant):
                return r.value == method
            if 'host_id' in t and 'self.host_id' in t:
                return own
        if t.startswith('isinstance(') and t.endswith(', dict)'):
            return True
        if "'method' in " in t:
            return True
        return None
    return oracle


def r1_r2_listener(ctx, fam):
    m = ctx.model
    P = PUBSUB[fam]
    th = m.method(P, '_thread')
    construct = P + '._thread'
    lits = published_literals(m, P)
    if len(lits) < 7:
        raise AnalysisError('%s: only %d published message literals found '
                            '(7 confirmed by hand)' % (P, len(lits)))
    pub_methods = sorted({x[2] for x in lits})
    arms = {}
    for meth in METHODS + ['callback', 'no-such-method']:
        for own in (False, True):
            run = run_function(th, ctx.model, oracle=method_oracle(meth, own), max_iter=1,
                      loop_iters={n.lineno: 1 for n in walk_own(th.node)
                                  if isinstance(n, (ast.While, ast.For,
                                                    ast.AsyncFor))})
            hs = set()
            for p in run.paths:
                mine = [e for e in p.events if e.kind == 'call' and
                        (e.callee() or '').startswith('_handle_') and
                        e.recv() == 'self']
                for e in mine:
                    hs.add(e.callee())
                # must-dispatch: a well-formed message (dict carrying
                # 'method') of a known method from another host reaches its
                # handler exactly once on EVERY path, whatever else the
                # listener tests on the way
                wellformed = [c for c in p.conds if c.pol and
                              "'method' in " in U(run.expand(c.atom))]
                if wellformed and p.exit != 'cut' and \
                        (meth == 'callback' or (not own and meth in METHODS)):
                    other = [('' if c.pol else 'not ') + c.text
                             for c in p.conds
                             if c.at >= wellformed[0].at and
                             c is not wellformed[0] and
                             "['method']" not in c.text and
                             'host_id' not in c.text]
                    ctx.check(len(mine) == 1, construct, "every path of a "
                              "well-formed '%s' message reaches its handler "
                              'exactly once' % meth,
                              key='must-dispatch ' + meth,
                              reason="a well-formed '%s' message from "
                              'another host is handled %d time(s) on the '
                              'path where %s' % (meth, len(mine),
                                                 ' and '.join(other) or
                                                 'nothing else is tested'),
                              where=where(th), rid='C07.R1')
            arms[(meth, own)] = hs
    for meth in METHODS:
        want = {'_handle_' + meth}
        ctx.check(arms[(meth, False)] == want, construct,
                  "remote '%s' message -> %s" % (meth, sorted(want)),
                  key='arm ' + meth, reason="a '%s' message from another "
                  'host is dispatched to %s' % (meth, sorted(
                      arms[(meth, False)]) or 'nothing'), where=where(th),
                  rid='C07.R1')
        ctx.check(not arms[(meth, True)], construct,
                  "own '%s' message (same host_id) is not re-applied" % meth,
                  key='echo ' + meth, reason="a '%s' message published by "
                  'this host is applied again by its own listener (%s)' % (
                      meth, sorted(arms[(meth, True)])), where=where(th),
                  rid='C07.R2')
    for own in (False, True):
        ctx.check(arms[('callback', own)] == {'_handle_callback'}, construct,
                  "'callback' messages reach _handle_callback whatever the "
                  'host id (the host test is inside)', key='arm callback',
                  where=where(th), rid='C07.R1')
    ctx.check(not arms[('no-such-method', False)], construct, 'unknown '
              'methods are ignored', key='arm unknown', where=where(th),
              rid='C07.R1')
    for pm in pub_methods:
        ctx.check(pm in METHODS + ['callback'], P, "published method '%s' "
                  'has a dispatch arm' % pm, key='no-arm ' + pm,
                  reason="messages with method '%s' are published but the "
                  'listener has no arm for them' % pm, where=where(th),
                  rid='C07.R1')
    for meth in METHODS + ['callback']:
        ctx.check(meth in pub_methods, P, "dispatch arm '%s' has a writer"
                  % meth, key='no-writer ' + meth, where=where(th),
                  rid='C07.R1')
    # field agreement
    for f, node, meth, keys in lits:
        h = m.lookup(m.cls(P), '_handle_' + meth)
        if h is None:
            continue
        req, opt = reads_of(h, h.params[1])
        missing = (req | opt) - set(keys)
        ctx.check(not missing, '%s.%s' % (P, f.name), "message '%s' carries "
                  'every field its handler reads (%s)' % (
                      meth, sorted(req | opt)), key='schema %s' % meth,
                  reason="the handler of '%s' reads %s, which the message "
                  'published by %s does not carry (keys %s)' % (
                      meth, sorted(missing), f.name, sorted(keys)),
                  where=where(f, node), rid='C07.R1')
        if meth != 'callback':
            ctx.check('host_id' in keys and U(keys['host_id']) ==
                      'self.host_id', '%s.%s' % (P, f.name),
                      "message '%s' carries 'host_id': self.host_id" % meth,
                      key='host_id ' + meth, reason="message '%s' published "
                      'by %s lacks the publishing host id: the publisher '
                      'would re-apply it' % (meth, f.name),
                      where=where(f, node), rid='C07.R1')
        # namespace normalised
        if 'namespace' in keys and meth not in ('callback',):
            v = U(keys['namespace'])
            ctx.check(v in ("namespace or '/'", 'namespace'),
                      '%s.%s' % (P, f.name), 'namespace field is the '
                      'function\'s namespace', key='ns-field',
                      where=where(f, node), rid='C07.R1')


def r3_callbacks(ctx, fam):
    m = ctx.model
    P = PUBSUB[fam]
    f = m.method(P, '_handle_callback')
    construct = P + '._handle_callback'
    run = run_function(f, m, declared_raises=True)
    n = 0
    for p in run.paths:
        for e in p.calls('trigger_callback'):
            n += 1
            g = [c for c in p.conds if c.at <= e.idx and c.pol and
                 'host_id' in U(run.expand(c.atom)) and
                 'self.host_id' in U(run.expand(c.atom)) and
                 isinstance(c.atom, ast.Compare) and
                 isinstance(c.atom.ops[0], ast.Eq)]
            ctx.check(bool(g), construct, 'a relayed acknowledgement '
                      'completes a callback only on the addressed host',
                      key='home-only', reason='_handle_callback triggers '
                      'the local callback without testing the message\'s '
                      'host_id against its own', where=where(f, e.node))
            a = [U(run.expand(x)) for x in e.expr.args]
            msg = f.params[1]
            ctx.check(a == ["%s['sid']" % msg, "%s['id']" % msg,
                            "%s['args']" % msg], construct,
                      'callback identified by the message\'s sid/id/args',
                      key='cb-fields', reason='trigger_callback(%s)'
                      % ', '.join(a), where=where(f, e.node))
    if not n:
        ctx.bad(construct, 'no-trigger', 'relayed acknowledgements are '
                'never completed', where(f))
    f = m.method(P, '_return_callback')
    construct = P + '._return_callback'
    # called positionally through functools.partial (the token rule checks
    # the partial's arguments): parameters are identified by position
    if len(f.params[1:]) != 4 or not f.vararg:
        raise AnalysisError(construct + ' signature changed: %s' % f.params)
    host_p, sid_p, ns_p, id_p = f.params[1:]
    run = run_function(f, m)
    seen = set()
    for p in run.paths:
        if not p.normal:
            continue
        home = None
        for c in p.conds:
            if U(run.expand(c.atom)) in ('%s == self.host_id' % host_p,
                                         'self.host_id == %s' % host_p):
                home = c.pol
        tc = p.calls('trigger_callback')
        pb = p.calls('_publish')
        if home is None:
            ctx.bad(construct, 'no-host-test', 'the acknowledgement is '
                    'routed without comparing the token\'s host with this '
                    'host', where(f))
            continue
        seen.add(home)
        if home:
            ctx.check(len(tc) == 1 and not pb and
                      [U(a) for a in tc[0].expr.args] ==
                      [sid_p, id_p, f.vararg], construct,
                      'token of this host: the callback is triggered '
                      'locally, nothing published', key='return-home',
                      where=where(f))
        else:
            ok = len(pb) == 1 and not tc
            if ok:
                d = run.expand(pb[0].expr.args[0])
                keys = {k.value: U(v) for k, v in zip(d.keys, d.values)} \
                    if isinstance(d, ast.Dict) else {}
                ok = keys.get('method') == "'callback'" and \
                    keys.get('host_id') == host_p and \
                    keys.get('sid') == sid_p and \
                    keys.get('id') == id_p and \
                    keys.get('args') == f.vararg
            ctx.check(ok, construct, 'token of another host: one '
                      "'callback' message addressed to that host with "
                      'sid/id/args, no local trigger', key='return-remote',
                      where=where(f))
    if seen != {True, False}:
        ctx.bad(construct, 'paths', 'missing home/remote branch', where(f))


def r4_apply_publish(ctx, fam):
    m = ctx.model
    P = PUBSUB[fam]

    def local_events(p, name):
        return [e for e in p.calls('_handle_' + name) if e.recv() == 'self']

    for name in ('emit', 'close_room', 'disconnect'):
        f = m.own_method(P, name)
        construct = '%s.%s' % (P, name)
        run = run_function(f, m)
        n_q = 0
        for p in run.paths:
            if not p.normal:
                continue
            iq = None
            for c in p.conds:
                if U(run.expand(c.atom)) == "kwargs.get('ignore_queue')":
                    iq = c.pol
            pubs = p.calls('_publish')
            loc = local_events(p, name)
            sup = [e for e in p.calls(name)
                   if isinstance(e.expr.func, ast.Attribute) and
                   U(e.expr.func.value) == 'super()']
            if iq:
                ctx.check(not pubs and not loc and len(sup) == 1, construct,
                          'ignore_queue: applied locally through the base '
                          'class only, nothing published', key='ignore-queue',
                          reason='ignore_queue path: publishes %d, local '
                          'handlers %d, base calls %d' % (
                              len(pubs), len(loc), len(sup)), where=where(f))
                # the base-class call receives this call's own arguments
                for e in sup[:1]:
                    base = m.lookup(m.cls(MANAGER[fam]), name) or \
                        m.lookup(m.cls('BaseManager'), 'basic_' + name)
                    if base is None:
                        continue
                    b = bind_call(e.expr, base)
                    got = {k: U(run.expand(v)) for k, v in b.args.items()}
                    want = {}
                    for prm in f.params[1:]:
                        if prm in base.params and prm != 'to':
                            want[prm] = 'to or room' if prm == 'room' and \
                                'to' in f.params else prm
                    bad = {k: got.get(k) for k in want
                           if got.get(k) != want[k]}
                    ctx.check(not bad, construct, 'ignore_queue: the base '
                              'class receives this call\'s own arguments',
                              key='ignore-queue-args', reason='the local '
                              'application drops or changes %s' % bad,
                              where=where(f, e.node))
                continue
            n_q += 1
            ok = len(pubs) == 1 and len(loc) == 1 and \
                loc[0].idx < pubs[0].idx and \
                U(loc[0].expr.args[0]) == U(pubs[0].expr.args[0]) and not sup
            ctx.check(ok, construct, 'queued: one local application, then '
                      'one publish of the same message', key='apply-publish',
                      reason='queued path applies locally %d time(s) and '
                      'publishes %d time(s)%s' % (
                          len(loc), len(pubs), ', publish first' if loc and
                          pubs and loc[0].idx > pubs[0].idx else ''),
                      where=where(f))
        if not n_q:
            ctx.bad(construct, 'no-queued-path', 'no queued path', where(f))
    for name in ('enter_room', 'leave_room'):
        f = m.own_method(P, name)
        construct = '%s.%s' % (P, name)
        run = run_function(f, m)
        seen = set()
        for p in run.paths:
            if not p.normal:
                continue
            here = None
            for c in p.conds:
                a = strip_await(run.expand(c.atom))
                if isinstance(a, ast.Call) and \
                        U(a.func) == 'self.is_connected' and \
                        [U(x) for x in a.args] == ['sid', 'namespace']:
                    here = c.pol
            pubs = p.calls('_publish')
            sup = [e for e in p.calls(name)
                   if isinstance(e.expr.func, ast.Attribute) and
                   U(e.expr.func.value) == 'super()']
            if here is None:
                ctx.bad(construct, 'no-local-test', 'room change is routed '
                        'without testing where the client lives', where(f))
                continue
            seen.add(here)
            ctx.check((len(sup) == 1 and not pubs) if here else
                      (len(pubs) == 1 and not sup), construct,
                      'client here: local only; elsewhere: publish only',
                      key='local-xor-publish', reason='client %s: local '
                      'calls %d, publishes %d' % (
                          'here' if here else 'elsewhere', len(sup),
                          len(pubs)), where=where(f))
        if seen != {True, False}:
            ctx.bad(construct, 'paths', 'missing branch', where(f))


def r5_remote_room_ops(ctx, fam):
    m = ctx.model
    P = PUBSUB[fam]
    for name in ('enter_room', 'leave_room'):
        f = m.own_method(P, '_handle_' + name)
        construct = '%s._handle_%s' % (P, name)
        msg = f.params[1]
        run = run_function(f, m)
        n = 0
        for p in run.paths:
            sup = [e for e in p.calls(name)
                   if isinstance(e.expr.func, ast.Attribute) and
                   U(e.expr.func.value) == 'super()']
            for e in sup:
                n += 1
                g = None
                for c in p.conds:
                    a = strip_await(run.expand(c.atom))
                    if c.at <= e.idx and c.pol and isinstance(a, ast.Call) \
                            and U(a.func) == 'self.is_connected':
                        g = a
                args = [U(run.expand(x)) for x in e.expr.args]
                want = ["%s.get('sid')" % msg, "%s.get('namespace')" % msg,
                        "%s.get('room')" % msg]
                ctx.check(g is not None and
                          [U(x) for x in g.args] == want[:2] and
                          args == want, construct, 'applies the message\'s '
                          '(sid, namespace, room) only if that client is '
                          'connected here', key='remote-guard',
                          reason='remote %s applied as %s under %s' % (
                              name, args, U(g) if g is not None
                              else 'no is_connected test'),
                          where=where(f, e.node))
        if not n:
            ctx.bad(construct, 'no-apply', 'remote %s is never applied'
                    % name, where(f))


def r6_token(ctx, fam):
    m = ctx.model
    P = PUBSUB[fam]
    f = m.own_method(P, 'emit')
    construct = P + '.emit'
    run = run_function(f, m)
    n = 0
    for p in run.paths:
        if not p.normal:
            continue
        for e in p.calls('_publish'):
            d = run.expand(e.expr.args[0])
            if not isinstance(d, ast.Dict):
                continue
            keys = {k.value: v for k, v in zip(d.keys, d.values)}
            cb = keys.get('callback')
            gen = p.calls('_generate_ack_id')
            if gen:
                n += 1
                good = isinstance(cb, ast.Tuple) and len(cb.elts) == 3 and \
                    U(cb.elts[0]) == 'to or room' and \
                    U(cb.elts[1]) == "namespace or '/'" and \
                    U(cb.elts[2]) == U(run.expand(gen[0].expr)) and \
                    [U(run.expand(a)) for a in gen[0].expr.args] == \
                    ['to or room', 'callback']
                ctx.check(good, construct, 'callback token is (room, '
                          'namespace, id) with the id generated for that '
                          'room', key='token', reason='token is %s'
                          % txt(cb), where=where(f, e.node))
                g = [c for c in p.conds if not c.pol and
                     U(run.expand(c.atom)) == '(to or room) is None']
                ctx.check(bool(g), construct, 'a callback requires a room',
                          key='token-room', where=where(f, e.node))
            else:
                none_param = isinstance(cb, ast.Name) and any(
                    c.pol and U(run.expand(c.atom)) == '%s is None' % cb.id
                    for c in p.conds)
                ctx.check(cb is None or is_const(cb, None) or none_param,
                          construct, 'no callback: token None',
                          key='token-none', where=where(f, e.node))
            for k, want in (('event', 'event'), ('data', 'data'),
                            ('room', 'to or room'),
                            ('skip_sid', 'skip_sid'),
                            ('namespace', "namespace or '/'")):
                ctx.check(txt(keys.get(k)) == want, construct,
                          "message field '%s' is the emit argument" % k,
                          key='field ' + k, reason="field '%s' is %s" % (
                              k, txt(keys.get(k))), where=where(f, e.node))
    if not n:
        ctx.bad(construct, 'no-token', 'no callback token path', where(f))
    h = m.own_method(P, '_handle_emit')
    construct = P + '._handle_emit'
    msg = h.params[1]
    run = run_function(h, m)
    seen = set()
    for p in run.paths:
        if not p.normal:
            continue
        sup = [e for e in p.calls('emit')
               if isinstance(e.expr.func, ast.Attribute) and
               U(e.expr.func.value) == 'super()']
        ctx.check(len(sup) == 1, construct, 'one local emit per message',
                  key='one-emit', where=where(h))
        for e in sup:
            b = bind_call(e.expr, m.method(MANAGER[fam], 'emit'))
            got = {k: U(run.expand(v)) for k, v in b.args.items()}
            want = {'event': "%s['event']" % msg, 'data': "%s['data']" % msg,
                    'namespace': "%s.get('namespace')" % msg,
                    'room': "%s.get('room')" % msg,
                    'skip_sid': "%s.get('skip_sid')" % msg}
            ctx.check(all(got.get(k) == v for k, v in want.items()),
                      construct, 'local emit receives the message\'s own '
                      'event/data/namespace/room/skip_sid',
                      key='emit-fields', reason='local emit gets %s' % {
                          k: got.get(k) for k, v in want.items()
                          if got.get(k) != v}, where=where(h, e.node))
            cb = run.expand(b.get('callback')) if b.get('callback') \
                is not None else None
            has_tok = None
            for c in p.conds:
                t = U(run.expand(c.atom))
                if t == "len(%s.get('callback')) == 3" % msg:
                    has_tok = c.pol
                if t == "%s.get('callback') is None" % msg and c.pol:
                    has_tok = False
            seen.add(bool(has_tok))
            if has_tok:
                good = isinstance(cb, ast.Call) and \
                    U(cb.func) == 'partial' and len(cb.args) == 3 and \
                    U(cb.args[0]) == 'self._return_callback' and \
                    U(cb.args[1]) == "%s.get('host_id')" % msg and \
                    isinstance(cb.args[2], ast.Starred) and \
                    U(cb.args[2].value) == "%s.get('callback')" % msg
                ctx.check(good, construct, 'token present: the local '
                          'callback relays to _return_callback(host of the '
                          'message, *token)', key='relay',
                          reason='callback is %s' % txt(cb),
                          where=where(h, e.node))
            else:
                ctx.check(cb is None or is_const(cb, None), construct,
                          'no 3-tuple token: no callback', key='no-relay',
                          where=where(h, e.node))
    if seen != {True, False}:
        ctx.bad(construct, 'paths', 'missing token/no-token branch',
                where(h))


def r7_host_identity(ctx, fam):
    """the echo filter and the home-only rule compare host ids: the id must
    be drawn afresh for every manager object.  On every normal path of the
    constructor the value stored in `self.host_id` contains a call evaluated
    in the constructor body (uuid4 ...), or is a required parameter; a
    parameter default, a class attribute or a module constant is evaluated
    once per process, so two managers of one process share it."""
    m = ctx.model
    P = PUBSUB[fam]
    f = m.method(P, '__init__')
    construct = P + '.__init__'
    run = run_function(f, m)
    a = f.node.args
    defaults = {}
    pos = a.posonlyargs + a.args
    for p_, d in zip(pos[len(pos) - len(a.defaults):], a.defaults):
        defaults[p_.arg] = d
    for p_, d in zip(a.kwonlyargs, a.kw_defaults):
        if d is not None:
            defaults[p_.arg] = d
    n = 0
    for p in run.paths:
        if not p.normal:
            continue
        st = [e for e in p.events if e.kind == 'store' and
              U(e.expr) == 'self.host_id']
        if not st:
            ctx.bad(construct, 'no-host-id', 'a constructor path leaves '
                    'host_id unset', where(f))
            continue
        n += 1
        v = run.expand(st[-1].extra)
        fresh = any(isinstance(x, ast.Call) for x in ast.walk(v))
        params = [x.id for x in ast.walk(v) if isinstance(x, ast.Name) and
                  x.id in f.params]
        shared = [q for q in params if q in defaults and not fresh]
        module_level = [x.id for x in ast.walk(v)
                        if isinstance(x, ast.Name) and x.id not in f.params
                        and not fresh]
        ok = fresh or (params and not shared and not module_level)
        ctx.check(ok, construct, 'host_id is drawn afresh for every manager '
                  'object (stored value: %s)' % txt(v), key='host-id-fresh',
                  reason='host_id is %s%s: evaluated once per process, every '
                  'manager created in it gets the same id - a message of '
                  'the other manager is taken for an own echo and dropped, '
                  'and its acknowledgements complete local callbacks' % (
                      txt(v), ' (default %s of parameter %s)' % (
                          txt(defaults[shared[0]]), shared[0])
                      if shared else ''), where=where(f, st[-1].node))
    if not n:
        raise AnalysisError(construct + ': no path stores host_id')


def _reach_nodes(m, f, depth=5, skip=()):
    """(module, node) of the function f and of every module-level function /
    class of the package it can reach by name (calls through `self.` resolve
    in the class hierarchy) - enough to follow a decode helper"""
    out, seen = [], set()
    work = [(f.module, f.node, f, 0)]
    while work:
        mod, node, fi, d = work.pop()
        if id(node) in seen:
            continue
        seen.add(id(node))
        out.append((mod, node))
        if d >= depth:
            continue
        for n in ast.walk(node):
            if isinstance(n, ast.Name) and isinstance(n.ctx, ast.Load):
                tgt = None
                if n.id in mod.functions:
                    g = mod.functions[n.id]
                    tgt = (mod, g.node, g)
                elif n.id in mod.classes:
                    tgt = (mod, mod.classes[n.id].node, None)
                elif n.id in mod.imports and ':' in mod.imports[n.id]:
                    base, name = mod.imports[n.id].split(':')
                    om = m.modules.get(base.lstrip('.'))
                    if om is not None and name in om.functions:
                        tgt = (om, om.functions[name].node,
                               om.functions[name])
                    elif om is not None and name in om.classes:
                        tgt = (om, om.classes[name].node, None)
                if tgt is not None:
                    work.append(tgt + (d + 1,))
            elif isinstance(n, ast.Call) and fi is not None and \
                    isinstance(n.func, ast.Attribute) and \
                    U(n.func.value) == 'self' and \
                    n.func.attr not in skip:
                kind, tg = m.resolve_call(fi, n)
                for t in tg:
                    work.append((t.module, t.node, t, d + 1))
    return out


def r8_channel_codec(ctx, fam):
    """the bundled backends put `pickle.dumps(message)` on the channel; the
    listener's bytes arm must accept everything that produces: the full
    pickle decoder, not a restricted one (an Unpickler subclass that
    overrides find_class / persistent_load refuses payloads - OrderedDict,
    namedtuple, Enum, UUID rooms - that the issuing host has already applied
    locally, so the cluster no longer behaves like one server)."""
    m = ctx.model
    P = PUBSUB[fam]
    f = m.method(P, '_thread')
    construct = P + '._thread'
    enc = 0
    for mod in m.modules.values():
        for n in ast.walk(mod.tree):
            if isinstance(n, ast.Call) and U(n.func) == 'pickle.dumps' and \
                    mod.imports.get('pickle') == 'pickle':
                enc += 1
    if not enc:
        ctx.info('no bundled backend publishes pickles: the codec rule has '
                 'nothing to compare the listener with')
        return
    full, restricted = [], []
    for mod, node in _reach_nodes(m, f):
        if isinstance(node, ast.ClassDef):
            if any(U(b).split('.')[-1] == 'Unpickler' for b in node.bases) \
                    and any(isinstance(x, ast.FunctionDef) and x.name in (
                        'find_class', 'persistent_load') for x in node.body):
                restricted.append((mod, node))
    # the listener's own decode: backends whose _listen yields raw bytes
    # (redis, kombu) rely on it; a backend that decodes in its _listen does
    # not stand in for it
    for mod, node in _reach_nodes(m, f, skip=('_listen', '_publish')):
        if isinstance(node, ast.ClassDef):
            continue
        for n in ast.walk(node):
            if isinstance(n, ast.Call) and (
                    (U(n.func) == 'pickle.loads' and
                     mod.imports.get('pickle') == 'pickle') or
                    (U(n.func) == 'loads' and
                     mod.imports.get('loads') == 'pickle:loads')):
                full.append((mod, n))
    ctx.check(not restricted, construct, 'the listener decodes channel bytes '
              'with the unrestricted inverse of the publishers\' '
              'pickle.dumps (%d publishing site(s))' % enc,
              key='restricted-unpickler', reason='the listener decodes with '
              '%s, an Unpickler that overrides find_class/persistent_load: '
              'messages the publishers can emit (any picklable payload, '
              'room or sid) are refused and silently dropped by every '
              'receiving host, while the issuing host has applied them' % (
                  restricted[0][1].name if restricted else ''),
              where='%s:%d' % (restricted[0][0].relpath,
                               restricted[0][1].lineno)
              if restricted else where(f))
    ctx.check(bool(full) or bool(restricted), construct, 'a pickle decode is '
              'reachable from the listener\'s bytes arm',
              key='no-pickle-decode', reason='no pickle.loads is reachable '
              'from the listener although %d backend site(s) publish '
              'pickle.dumps: every message of those backends is dropped'
              % enc, where=where(f))


def run(ctx):
    ctx.rule('C07.R1', 'message schema agreement between publishers, '
             'listener arms and handlers', floor=30)
    ctx.rule('C07.R2', 'echo filter: own messages are not re-applied',
             floor=10)
    for fam in SA:
        r1_r2_listener(ctx, fam)
    ctx.rule('C07.R7', 'host identity is fresh per manager object', floor=2)
    for fam in SA:
        r7_host_identity(ctx, fam)
    ctx.rule('C04.R2', 'disconnect on the owning host: test, mark, handler, '
             'then a LOCAL release (ignore_queue=True) - routed through the '
             'queue the release would come back to a client already marked '
             '(shared rule)', floor=12)
    ctx.rule('C04.R1', 'asyncio: no suspension between the connected-test '
             'and the mark (shared rule)', floor=2)
    from .c04 import r1_r2_site
    for fam in SA:
        for fname in ('disconnect', '_handle_disconnect'):
            r1_r2_site(ctx, fam, fname)
    ctx.rule('C07.R3', 'callbacks complete only at home', floor=8)
    for fam in SA:
        r3_callbacks(ctx, fam)
    ctx.rule('C07.R4', 'apply locally once then publish once; '
             'ignore_queue local only; enter/leave local xor publish',
             floor=20)
    for fam in SA:
        r4_apply_publish(ctx, fam)
    ctx.rule('C07.R5', 'remote room operations only where the client lives',
             floor=4)
    for fam in SA:
        r5_remote_room_ops(ctx, fam)
    ctx.rule('C07.R6', 'callback token shape and relay; _handle_emit '
             'forwards the message\'s own fields', floor=20)
    for fam in SA:
        r6_token(ctx, fam)
    ctx.rule('C06.R8', 'the pub/sub layer does not touch the callbacks '
             'table itself: callbacks given to an emit are completed through '
             'trigger_callback only, and dropped only with their client on '
             'the host that owns it (shared rule)', floor=8)
    from .common import table_owners
    table_owners(ctx, 'callbacks', ('BaseManager',),
                 ('__init__', '_generate_ack_id', 'trigger_callback',
                  'basic_disconnect'), 'C06.R8',
                 'a host that saw a disconnect request pass by must not '
                 'forget a callback whose acknowledgement is still on the '
                 'channel, and a callback must not be registered under a '
                 'second id')
    ctx.rule('C07.R8', 'channel codec agreement: the listener accepts every '
             'message the bundled publishers can serialise', floor=4)
    for fam in SA:
        r8_channel_codec(ctx, fam)
    ctx.assume('the channel is FIFO and delivers every message to every '
               'host (trusted backend)')
    ctx.assume('cluster == single server over all placements and delays is '
               'NOT decided')
