"""C10 - client reconnection: only after accidental loss, bounded back-off
and attempts.  The numeric back-off law is NOT decided; the policy skeleton
is.

R1 who may start a reconnection: _handle_reconnect is started as a
   background task only in _handle_eio_disconnect and called directly only
   under connect(retry=True).
R2 guard composition: the start is dominated by will_reconnect and
   `not self._reconnect_task`; will_reconnect is a conjunction containing
   self.reconnection and self.eio.state == 'connected'.
R3 replay: connect() stores url/headers/auth/transports/namespaces/
   socketio_path in the connection_* attributes before the transport
   connects; _handle_reconnect passes each back to the same-named parameter
   with retry=False.
R4 loop skeleton: abort wait before every attempt; abort leaves without an
   attempt; counter incremented once per attempt; success leaves and clears
   _reconnect_task; after a failure the bound test `attempts and count >=
   attempts` leaves; the registry entry is removed on every exit.
R5 delay dependencies: the timeout of the k-th wait is built from
   reconnection_delay doubled k-1 times, capped against
   reconnection_delay_max, plus randomization_factor * random.
R6 shutdown: not connected and a task present => abort event set, then the
   task joined / awaited.
R7 the single-effort guard has three writers: the constructor (None),
   _handle_eio_disconnect (the task it starts) and _handle_reconnect itself
   (None, when its own effort has succeeded).  Any other writer disarms the
   guard while an effort may still be running (a second concurrent effort
   with its own back-off and attempt counter).
R8 the guard is released when the effort is over: on the give-up and abort
   exits of _handle_reconnect `_reconnect_task` is cleared as on success
   (or the guard test in _handle_eio_disconnect asks the task whether it is
   still running) - otherwise a later accidental loss never reconnects.
"""
import ast

from ..model import AnalysisError
from ..sym import U, is_const, Run, run_function
from ..util import bind_call, strip_await, where, SA, CLIENT, walk_own
from .common import txt

REPLAY = [('url', 'connection_url'), ('headers', 'connection_headers'),
          ('auth', 'connection_auth'),
          ('transports', 'connection_transports'),
          ('namespaces', 'connection_namespaces'),
          ('socketio_path', 'socketio_path')]


def r1_r2(ctx, fam):
    m = ctx.model
    C = CLIENT[fam]
    cls = m.cls(C)
    starters, direct = [], []
    for name, f in cls.methods.items():
        for n in walk_own(f.node):
            if not isinstance(n, ast.Call):
                continue
            if U(n.func).endswith('start_background_task') and n.args and \
                    U(n.args[0]) == 'self._handle_reconnect':
                starters.append((name, n))
            if U(n.func) == 'self._handle_reconnect':
                direct.append((name, n))
    ctx.check([s[0] for s in starters] == ['_handle_eio_disconnect'], C,
              'the reconnection task is started only in '
              '_handle_eio_disconnect', key='starter',
              reason='_handle_reconnect started as a task from %s'
              % [s[0] for s in starters], where=cls.module.relpath,
              rid='C10.R1')
    ctx.check(all(d[0] == 'connect' for d in direct), C,
              '_handle_reconnect is called directly only from connect()',
              key='direct', reason='_handle_reconnect called from %s'
              % [d[0] for d in direct], where=cls.module.relpath,
              rid='C10.R1')
    f = m.method(C, 'connect')
    run = run_function(f, m, max_iter=1, raiser=lambda e: {'ConnectionError'}
                       if e.callee() == 'connect' and e.recv() == 'self.eio'
                       else None, max_paths=400000)
    for p in run.paths:
        for e in p.calls('_handle_reconnect'):
            g = [c for c in p.conds if c.at <= e.idx and c.pol and
                 U(c.atom) == 'retry']
            ctx.check(bool(g), C + '.connect', 'direct reconnection only '
                      'under retry=True', key='retry-guard',
                      where=where(f, e.node), rid='C10.R1')
    f = m.method(C, '_handle_eio_disconnect')
    construct = C + '._handle_eio_disconnect'
    run = run_function(f, m, max_iter=1)
    n = 0
    for p in run.paths:
        for e in p.calls('start_background_task'):
            if not e.expr.args or U(e.expr.args[0]) != \
                    'self._handle_reconnect':
                continue
            n += 1
            will = notask = None
            for c in p.conds:
                if c.at > e.idx:
                    continue
                a = run.expand(c.atom)
                if isinstance(a, ast.BoolOp) and isinstance(a.op, ast.And):
                    parts = [U(v) for v in a.values]
                    if 'self.reconnection' in parts and \
                            "self.eio.state == 'connected'" in parts:
                        will = c.pol
                if U(a) == 'self._reconnect_task':
                    notask = not c.pol
                # the conjunction may also have been split by the walker
            split = {U(run.expand(c.atom)): c.pol for c in p.conds
                     if c.at <= e.idx}
            if will is None and split.get('self.reconnection') and \
                    split.get("self.eio.state == 'connected'"):
                will = True
            ctx.check(will is True, construct, 'start dominated by '
                      'will_reconnect = reconnection and eio.state == '
                      "'connected'", key='will-reconnect',
                      reason='the reconnection task can start without the '
                      'test `self.reconnection and self.eio.state == '
                      "'connected'` being true: " + p.describe()[:160],
                      where=where(f, e.node), rid='C10.R2')
            ctx.check(notask is True, construct, 'start only when no '
                      'reconnection task exists', key='single-task',
                      reason='a second reconnection task can be started',
                      where=where(f, e.node), rid='C10.R2')
            st = [s for s in p.events if s.kind == 'store' and
                  U(s.expr) == 'self._reconnect_task' and s.idx > e.idx]
            ctx.check(bool(st), construct, 'the started task is recorded in '
                      '_reconnect_task', key='task-recorded',
                      where=where(f, e.node), rid='C10.R2')
    if not n:
        ctx.bad(construct, 'no-start', 'transport loss never starts a '
                'reconnection', where(f), rid='C10.R2')


def r3_replay(ctx, fam):
    m = ctx.model
    C = CLIENT[fam]
    f = m.method(C, 'connect')
    construct = C + '.connect'
    run = run_function(f, m, max_iter=1, max_paths=400000)
    checked = False
    for p in run.paths:
        ec = [e for e in p.calls('connect') if e.recv() == 'self.eio']
        if not ec:
            continue
        checked = True
        e = ec[0]
        for param, attr in REPLAY:
            st = [s for s in p.events[:e.idx] if s.kind == 'store' and
                  U(s.expr) == 'self.' + attr]
            if param == 'namespaces':
                good = bool(st)
            else:
                good = bool(st) and U(st[-1].extra) == param
            ctx.check(good, construct, 'connect argument %s stored in '
                      'self.%s before the transport connects' % (param, attr),
                      key='store ' + attr, reason='self.%s is %s before '
                      'eio.connect' % (attr, txt(st[-1].extra) if st
                                       else 'not stored'),
                      where=where(f, e.node))
        break
    if not checked:
        ctx.bad(construct, 'no-eio-connect', 'connect never connects the '
                'transport', where(f))
    # what is replayed is what the application asked for: the connection_*
    # attributes are written by connect() (and the constructor) only
    for param, attr in REPLAY:
        for wf, stmt in m.attr_writes.get(attr, []):
            owner = wf
            while owner.cls is None and owner.parent is not None:
                owner = owner.parent
            if owner.cls is None or owner.cls.name not in (C, 'BaseClient'):
                continue
            ctx.check(owner.name in ('__init__', 'connect'),
                      '%s.%s' % (owner.cls.name, owner.name),
                      'self.%s is written by connect() only' % attr,
                      key='replay-writer ' + attr, reason='%s.%s rewrites '
                      'self.%s: a later reconnection replays something else '
                      'than the %s the application connected with' % (
                          owner.cls.name, owner.name, attr, param),
                      where=where(wf, stmt))
    g = m.method(C, '_handle_reconnect')
    calls = [n for n in walk_own(g.node) if isinstance(n, ast.Call) and
             U(n.func) == 'self.connect']
    if not calls:
        ctx.bad(C + '._handle_reconnect', 'no-attempt', 'no connect attempt',
                where(g))
    for c in calls:
        b = bind_call(c, f)
        for param, attr in REPLAY:
            ctx.check(txt(b.get(param)) == 'self.' + attr,
                      C + '._handle_reconnect', 'replays self.%s as %s'
                      % (attr, param), key='replay ' + param,
                      reason='reconnection passes %s=%s' % (
                          param, txt(b.get(param))), where=where(g, c))
        ctx.check(is_const(b.get('retry'), False), C + '._handle_reconnect',
                  'attempts are made with retry=False', key='replay retry',
                  where=where(g, c))
        for extra in ('wait', 'wait_timeout'):
            if b.get(extra) is not None:
                ctx.info('%s._handle_reconnect passes %s=%s' % (
                    C, extra, U(b.get(extra))))


def fold(node):
    """constant-fold small integer arithmetic: 0 + 1 + 1 -> 2"""
    if isinstance(node, ast.Constant) and isinstance(node.value, int):
        return node.value
    if isinstance(node, ast.BinOp) and isinstance(node.op, ast.Add):
        a, b = fold(node.left), fold(node.right)
        if a is not None and b is not None:
            return a + b
    return None


def r4_loop(ctx, fam):
    m = ctx.model
    C = CLIENT[fam]
    f = m.method(C, '_handle_reconnect')
    construct = C + '._handle_reconnect'
    w = where(f)

    def raiser(e):
        if e.callee() == 'connect' and e.recv() == 'self':
            # the two ways an attempt fails: the server cannot be reached or
            # refuses, or engine.io will not start a connection (ValueError)
            return [{'ConnectionError'}, {'ValueError'}]
        if e.callee() == 'wait_for':
            return {'TimeoutError'}
        return None
    run = run_function(f, m, max_iter=1, raiser=raiser,
                       loop_iters={n.lineno: 2 for n in walk_own(f.node)
                                   if isinstance(n, ast.While)},
                       max_paths=400000)
    seen = dict(abort=0, success=0, giveup=0)
    # R8: when the effort is over the single-effort guard is released (or
    # the guard itself can tell a finished effort from a running one)
    d = m.method(C, '_handle_eio_disconnect')
    liveness = any(
        isinstance(n, ast.Call) and isinstance(n.func, ast.Attribute) and
        n.func.attr in ('is_alive', 'done', 'ready', 'dead') and
        '_reconnect_task' in U(n.func.value)
        for n in walk_own(d.node)) or any(
        isinstance(n, ast.Compare) and 'reconnecting_clients' in U(n)
        for n in walk_own(d.node))
    r8_seen = set()

    def guard_released(kind, p):
        if kind in r8_seen:
            return
        r8_seen.add(kind)
        st = [e for e in p.events if e.kind == 'store' and
              U(e.expr) == 'self._reconnect_task']
        ok = liveness or (st and is_const(st[-1].extra, None))
        ctx.check(ok, construct, 'effort over (%s): the single-effort guard '
                  'is released' % kind,
                  key='effort ended (%s) with _reconnect_task still set'
                  % kind.split()[0], reason='the effort ends (%s) but '
                  '_reconnect_task keeps the finished task: when the '
                  'application connects again and the transport is lost, '
                  '_handle_eio_disconnect sees `not self._reconnect_task` '
                  'false and never reconnects' % kind, where=w,
                  rid='C10.R8')
    cleared_seen = set()
    bound_seen = set()
    for p in run.paths:
        if not p.normal:
            continue
        waits = [e for e in p.events if e.kind == 'call' and
                 e.callee() == 'wait' and '_reconnect_abort' in U(e.expr)]
        # a new effort starts with the abort event lowered: a set() left over
        # from an earlier shutdown() would end it before its first attempt
        clr = [e for e in p.calls('clear')
               if '_reconnect_abort' in U(e.expr)]
        okc = bool(clr) and (not waits or clr[0].idx < waits[0].idx)
        if okc not in cleared_seen:
            cleared_seen.add(okc)
            ctx.check(okc, construct, 'the abort event is cleared before the '
                      'first back-off wait of an effort', key='abort-cleared',
                      reason='the effort does not clear _reconnect_abort '
                      'before waiting on it: after one shutdown() every '
                      'later effort of this client aborts at its first wait',
                      where=w)
        attempts = [e for e in p.calls('connect') if e.recv() == 'self']
        # registry pairing
        app = [e for e in p.calls('append')
               if 'reconnecting_clients' in U(e.expr)]
        rem = [e for e in p.calls('remove')
               if 'reconnecting_clients' in U(e.expr)]
        ctx.check(len(app) == 1 and len(rem) == 1 and rem[0].idx > app[0].idx
                  and (not attempts or rem[0].idx > attempts[-1].idx),
                  construct, 'registered in reconnecting_clients for the '
                  'duration, removed on exit', key='registry', where=w)
        # every attempt is preceded by its own abort wait
        for i, a in enumerate(attempts):
            prev = attempts[i - 1].idx if i else -1
            ws = [x for x in waits if prev < x.idx < a.idx]
            ctx.check(len(ws) == 1, construct, 'attempt %d is preceded by '
                      'exactly one abort wait' % (i + 1), key='wait-first',
                      reason='attempt %d preceded by %d abort waits' % (
                          i + 1, len(ws)), where=where(f, a.node))
        # every failed attempt is counted against the limit before the next
        # one: the bound test lies between two consecutive attempts
        for i in range(len(attempts) - 1):
            between = [c for c in p.conds
                       if attempts[i].idx < c.at <= attempts[i + 1].idx and
                       'self.reconnection_attempts' in U(run.expand(c.atom))]
            if (i, bool(between)) in bound_seen:
                continue
            bound_seen.add((i, bool(between)))
            ctx.check(bool(between), construct, 'the attempt limit is '
                      'tested after failed attempt %d, before the next one'
                      % (i + 1), key='bound-every-failure',
                      reason='attempt %d fails and attempt %d follows '
                      'without reconnection_attempts having been consulted '
                      'in between: a failure of this kind never ends the '
                      'effort, so more than reconnection_attempts attempts '
                      'are made' % (i + 1, i + 2),
                      where=where(f, attempts[i + 1].node))
        # classify the exit
        aborted = [c for c in p.conds
                   if (('_reconnect_abort' in U(run.expand(c.atom)) and
                        'wait' in U(run.expand(c.atom))) or
                       run.pretty(c.atom) == 'abort') and c.pol]
        if fam == 'async':
            # abort = the wait_for completed (no TimeoutError caught)
            caught = [e for e in p.events if e.kind == 'caught' and
                      'TimeoutError' in U(e.expr)]
            aborted = len(caught) < len(waits)
        if aborted:
            guard_released('aborted by shutdown()', p)
            seen['abort'] += 1
            last_wait = waits[-1]
            ctx.check(not [a for a in attempts if a.idx > last_wait.idx],
                      construct, 'abort leaves the loop without a further '
                      'attempt', key='abort-no-attempt', where=w)
            continue
        succeeded = attempts and not any(
            e.kind == 'caught' and e.extra is not None and
            e.extra.origin is attempts[-1] for e in p.events)
        if succeeded:
            seen['success'] += 1
            st = [e for e in p.events if e.kind == 'store' and
                  U(e.expr) == 'self._reconnect_task' and
                  is_const(e.extra, None) and e.idx > attempts[-1].idx]
            ctx.check(bool(st), construct, 'success clears _reconnect_task '
                      'and leaves the loop', key='success-clear', where=w)
            continue
        # gave up after a failed attempt: the bound test
        guard_released('gave up after reconnection_attempts attempts', p)
        seen['giveup'] += 1
        lim = [c for c in p.conds if c.pol and
               U(run.expand(c.atom)) == 'self.reconnection_attempts']
        cmpc = [c for c in p.conds
                if isinstance(c.atom, ast.Compare) and
                U(c.atom.comparators[0]) == 'self.reconnection_attempts'
                and isinstance(c.atom.ops[0], ast.Lt)]
        good = bool(lim) and bool(cmpc) and not cmpc[-1].pol
        cnt = fold(run.expand(cmpc[-1].atom.left)) if cmpc else None
        ctx.check(good and cnt == len(attempts), construct,
                  'gives up exactly when reconnection_attempts is set and '
                  'the number of attempts made (%d) is not below it'
                  % len(attempts), key='bound',
                  reason='give-up exit with conditions %s; counter value %s '
                  'after %d attempts' % ([
                      ('' if c.pol else 'not ') + c.text for c in cmpc + lim],
                      cnt, len(attempts)), where=w)
    for k, v in seen.items():
        if not v:
            ctx.bad(construct, 'missing-exit ' + k, 'the reconnect loop has '
                    'no %s exit' % k, w)
    # the loop has no other exit: every Break/Return sits under one of them
    ctx.extra.setdefault('reconnect_paths', {})[C] = len(run.paths)


def deps(node):
    out = set()
    for n in ast.walk(node):
        if isinstance(n, ast.Attribute) and U(n.value) == 'self':
            out.add(n.attr)
        if isinstance(n, ast.Call):
            out.add(U(n.func) + '()')
    return out


def r5_delay(ctx, fam):
    m = ctx.model
    C = CLIENT[fam]
    f = m.method(C, '_handle_reconnect')
    construct = C + '._handle_reconnect'

    def raiser(e):
        if e.callee() == 'connect' and e.recv() == 'self':
            return {'ConnectionError'}
        if e.callee() == 'wait_for':
            return {'TimeoutError'}
        return None
    run = run_function(f, m, max_iter=1, raiser=raiser,
                       loop_iters={n.lineno: 2 for n in walk_own(f.node)
                                   if isinstance(n, ast.While)},
                       max_paths=400000)
    done = set()
    for p in run.paths:
        waits = [e for e in p.events if e.kind == 'call' and
                 e.callee() in ('wait', 'wait_for') and
                 '_reconnect_abort' in U(run.expand(e.expr)) and
                 (e.callee() == 'wait_for' or fam == 'sync')]
        for k, e in enumerate(waits):
            args = e.expr.args
            t = args[-1] if args else None
            for kw in e.expr.keywords:
                if kw.arg in ('timeout',):
                    t = kw.value
            tx = run.expand(t)
            d = deps(tx)
            is_capped = 'reconnection_delay' not in d
            if (k, is_capped) in done:
                continue
            done.add((k, is_capped))
            need = {'randomization_factor', 'random.random()',
                    'reconnection_delay_max' if is_capped
                    else 'reconnection_delay'}
            allowed = need | {'reconnection_delay_max'}
            ctx.check(need <= d and d <= allowed, construct,
                      'wait %d: the timeout depends on exactly '
                      'reconnection_delay, reconnection_delay_max (when '
                      'capped), randomization_factor and random.random()'
                      % (k + 1), key='delay-deps',
                      reason='the back-off timeout depends on %s' % sorted(d),
                      where=where(f, e.node))
            # doubling: base delay of wait k is reconnection_delay * 2^k,
            # or the cap
            txt_ = U(tx)
            base = 'self.reconnection_delay' + ' * 2' * k
            capped = 'self.reconnection_delay_max' in txt_ and \
                'self.reconnection_delay *' not in txt_ and \
                'self.reconnection_delay +' not in txt_
            ctx.check(base in txt_ or capped, construct, 'wait %d uses the '
                      'delay doubled %d time(s) or the cap' % (k + 1, k),
                      key='doubling', reason='the timeout of wait %d is %s'
                      % (k + 1, txt_[:120]), where=where(f, e.node))
            # cap: a comparison against reconnection_delay_max dominates
            capc = [c for c in p.conds if c.at <= e.idx and
                    isinstance(c.atom, ast.Compare) and
                    'self.reconnection_delay_max' in U(run.expand(c.atom))]
            ok = len(capc) >= k + 1
            if ok:
                c = capc[k]
                a = run.expand(c.atom)
                # reconnection_delay_max < delay  true  => capped value used
                exceeded = isinstance(a.ops[0], ast.Lt) and \
                    U(a.left) == 'self.reconnection_delay_max' and c.pol
                if exceeded:
                    ok = capped
                else:
                    ok = isinstance(a.ops[0], ast.Lt) and \
                        U(a.left) == 'self.reconnection_delay_max' and \
                        base in txt_
            ctx.check(ok or 'min(' in txt_, construct, 'wait %d: the delay '
                      'is compared with reconnection_delay_max and replaced '
                      'by it when larger' % (k + 1), key='cap',
                      reason='the delay of wait %d is not capped by '
                      'reconnection_delay_max on path %s' % (
                          k + 1, p.describe()[:120]), where=where(f, e.node))
    if len({k for k, _ in done}) < 2:
        ctx.bad(construct, 'waits', 'fewer than two back-off waits found on '
                'the unrolled loop', where(f))


def r6_shutdown(ctx, fam):
    m = ctx.model
    C = CLIENT[fam]
    f = m.method(C, 'shutdown')
    construct = C + '.shutdown'
    run = run_function(f, m)
    n_dis = n_abort = 0
    for p in run.paths:
        if not p.normal:
            continue
        conn = task = None
        for c in p.conds:
            if U(c.atom) == 'self.connected':
                conn = c.pol
            if U(run.expand(c.atom)) == 'self._reconnect_task':
                task = c.pol
        if conn:
            n_dis += 1
            ctx.check(len([e for e in p.calls('disconnect')
                           if e.recv() == 'self']) == 1, construct,
                      'connected: disconnects', key='shutdown-connected',
                      where=where(f))
        elif task:
            n_abort += 1
            st = [e for e in p.calls('set')
                  if e.recv() == 'self._reconnect_abort']
            j = [e for e in p.events if
                 (e.kind == 'call' and e.callee() == 'join' and
                  e.recv() == 'self._reconnect_task') or
                 (e.kind == 'await' and
                  U(run.expand(e.expr)) == 'self._reconnect_task')]
            ctx.check(bool(st) and bool(j) and st[0].idx < j[0].idx,
                      construct, 'reconnecting: abort event set, then the '
                      'task is joined/awaited', key='shutdown-abort',
                      reason='shutdown during reconnection: set=%d join=%d'
                      % (len(st), len(j)), where=where(f))
    if not n_dis or not n_abort:
        ctx.bad(construct, 'paths', 'shutdown lacks the connected or the '
                'reconnecting branch', where(f))


def r7_guard_writers(ctx, fam):
    m = ctx.model
    C = CLIENT[fam]
    allowed = {'__init__', '_handle_eio_disconnect', '_handle_reconnect'}
    n = 0
    for f, stmt in m.attr_writes.get('_reconnect_task', []):
        owner = f
        while owner.cls is None and owner.parent is not None:
            owner = owner.parent
        if owner.cls is None or owner.cls.name not in (C, 'BaseClient'):
            continue
        n += 1
        ctx.check(owner.name in allowed, '%s.%s' % (owner.cls.name,
                                                    owner.name),
                  '_reconnect_task written by its owners only',
                  key='guard-writer', reason='%s.%s assigns '
                  '_reconnect_task: the single-effort guard of '
                  '_handle_eio_disconnect is disarmed while a reconnection '
                  'effort may still be running (every attempt of the effort '
                  'goes through connect())' % (owner.cls.name, owner.name),
                  where=where(f, stmt))
    if n < 2:
        raise AnalysisError('%s: only %d writers of _reconnect_task found '
                            '(constructor, start and success confirmed by '
                            'hand)' % (C, n))


def r9_abort_not_self_inflicted(ctx, fam):
    """the abort event ends a reconnection effort: it is raised by the
    application (shutdown) only.  A function that sets it must not be
    reachable from _handle_reconnect itself - each attempt goes through
    connect(), which tears a half-open attempt down with disconnect() - or
    the effort aborts itself after a namespace-level failure although
    attempts remain."""
    m = ctx.model
    C = CLIENT[fam]
    top = m.method(C, '_handle_reconnect')
    reach = set(id(g) for g in m.reachable(top))
    n = 0
    for g in m.cls(C).methods.values():
        for y in walk_own(g.node):
            if isinstance(y, ast.Call) and \
                    isinstance(y.func, ast.Attribute) and \
                    y.func.attr == 'set' and \
                    U(y.func.value) == 'self._reconnect_abort':
                n += 1
                ctx.check(id(g) not in reach and g is not top,
                          '%s.%s' % (C, g.name), 'the abort event is raised '
                          'outside the reconnection effort only',
                          key='abort-from-effort', reason='%s sets '
                          '_reconnect_abort and is reachable from '
                          '_handle_reconnect (through connect()): an attempt '
                          'that fails at the namespace level aborts the '
                          'whole effort although attempts remain' % g.name,
                          where=where(g, y))
    if not n:
        raise AnalysisError(C + ': nobody sets _reconnect_abort')


def run(ctx):
    ctx.rule('C10.R11', 'exception identity: ConnectionError / TimeoutError '
             'named in the client modules are the package\'s classes (what '
             'connect() raises and the reconnect loop catches), never the '
             'builtins of the same name', floor=0)
    from .common import exception_identity
    exception_identity(ctx, ('client', 'async_client', 'base_client'),
                       'C10.R11')
    ctx.rule('C10.R9', 'the abort event is not raised from inside the '
             'reconnection effort', floor=2)
    for fam in SA:
        r9_abort_not_self_inflicted(ctx, fam)
    ctx.rule('C10.R7', 'writers of the single-effort guard _reconnect_task',
             floor=4)
    for fam in SA:
        r7_guard_writers(ctx, fam)
    ctx.rule('C10.R8', 'when a reconnection effort is over (success, give-up, '
             'abort) the single-effort guard is released', floor=4)
    ctx.rule('C10.R1', 'who may start a reconnection', floor=4)
    ctx.rule('C10.R2', 'start dominated by will_reconnect and no existing '
             'task; will_reconnect = reconnection and transport state '
             'connected', floor=6)
    for fam in SA:
        r1_r2(ctx, fam)
    ctx.rule('C10.R3', 'connect() arguments stored and replayed to the '
             'same-named parameters with retry=False', floor=26)
    for fam in SA:
        r3_replay(ctx, fam)
    ctx.rule('C10.R4', 'loop skeleton: wait before each attempt, abort / '
             'success / bound exits, counter = attempts made, registry '
             'pairing', floor=20)
    for fam in SA:
        r4_loop(ctx, fam)
    ctx.rule('C10.R5', 'delay dependencies, doubling and cap present',
             floor=12)
    for fam in SA:
        r5_delay(ctx, fam)
    ctx.rule('C10.R6', 'shutdown: disconnect when connected, else abort and '
             'join the reconnection task', floor=4)
    for fam in SA:
        r6_shutdown(ctx, fam)
    ctx.rule('C08.R3', 'a transport loss during an attempt empties the '
             'accepted-namespace table on every path, which is what makes '
             'the waiting connect() fail and the effort continue (shared '
             'rule)', floor=10)
    from .c08 import r3_reset
    for fam in SA:
        r3_reset(ctx, fam)
    ctx.assume('engine.io clears eio.state before notifying an intentional '
               'close (trusted): will_reconnect is then false')
    ctx.assume('the numeric back-off law and jitter bounds are NOT decided; '
               'only dependency set, doubling and cap structure')
