"""C06 - server-initiated acks: callback at most once, only for the right
client and id.

R1 callback typestate in trigger_callback (delete exactly the entry before
   invoking; unknown id: nothing invoked, nothing written, no error).
R2 every value that can be loaded from callbacks[.][.] and invoked is a
   callback parameter (the id counter must sit under a key no wire id equals).
R3 one fresh id per recipient, generated for the loop's sid, carried by the
   packet sent to the loop's transport id.
R4 _handle_ack keys the table by sid_from_eio_sid(own transport, packet
   namespace) and the packet's own id/data.
R5 ids come from one counter per client, created once.
R6 call(): result shaping over len in {0, 1, 2+}; TimeoutError exactly on
   wait failure; the callback given to emit is the local collector.
"""
import ast

from ..model import AnalysisError
from ..sym import U, is_const, Run, run_function
from ..util import (bind_call, strip_await, where, SA, SERVER, MANAGER,
                    eval_cmp)
from .common import sends, txt
from . import msgpath


def r3_fresh_id(ctx, fam):
    m = ctx.model
    M = MANAGER[fam]
    f = m.method(M, 'emit')
    construct = M + '.emit'
    run = run_function(f, m, max_iter=1)
    n = 0
    for p in run.paths:
        if not p.normal:
            continue
        for e in p.calls('_generate_ack_id'):
            n += 1
            a = [run.sym_of(x) for x in e.expr.args[:1]]
            d = a[0]
            okloop = d is not None and d['kind'] == 'loopvar' and \
                d.get('index') == 0 and \
                'get_participants' in U(d['expr']) and e.loops
            ctx.check(okloop, construct, 'the id is generated inside the '
                      'recipient loop for that loop\'s sid', key='id-loop',
                      reason='_generate_ack_id(%s) is not keyed by the '
                      'recipient loop\'s sid' % U(e.expr.args[0]),
                      where=where(f, e.node))
            cb = U(e.expr.args[1]) if len(e.expr.args) > 1 else None
            ctx.check(cb == 'callback', construct, 'the stored callback is '
                      'the caller\'s callback', key='id-callback',
                      where=where(f, e.node))
            # the packet with this id goes to the same iteration's transport
            snd = [(s, pk, tgt) for s, pk, tgt in sends(run, p)
                   if s.idx > e.idx and s.loops == e.loops]
            good = False
            for s, pk, tgt in snd:
                pid = pk.get('id') if pk else None
                same_id = pid is not None and strip_await(pid) is not None \
                    and U(pid) == U(run.expand(e.expr))
                td = run.sym_of(s.expr.args[0])
                same_iter = td is not None and td['kind'] == 'loopvar' and \
                    td.get('index') == 1 and d is not None and \
                    td['node'] is d['node'] and \
                    td.get('iteration') == d.get('iteration')
                good = good or (same_id and same_iter and
                                pk['type'] == 'EVENT')
            ctx.check(good, construct, 'the packet carrying this id is sent '
                      'to the transport of the same recipient',
                      key='id-packet', reason='no EVENT packet with id=%s is '
                      'sent to the transport id of the same loop iteration'
                      % U(e.expr), where=where(f, e.node))
    if not n:
        ctx.bad(construct, 'no-id', 'the callback branch no longer '
                'generates ack ids', where(f))


def r4_handle_ack(ctx, fam):
    m = ctx.model
    S = SERVER[fam]
    f = m.method(S, '_handle_ack')
    construct = S + '._handle_ack'
    if len(f.params[1:]) != 4:
        raise AnalysisError(construct + ' signature changed')
    eio_p, ns_p, id_p, data_p = f.params[1:]
    run = run_function(f, m)
    n = 0
    for p in run.paths:
        if not p.normal:
            continue
        tc = p.calls('trigger_callback')
        ctx.check(len(tc) == 1, construct, 'one trigger_callback per ACK',
                  key='one-trigger', where=where(f))
        for e in tc:
            n += 1
            a = [U(run.expand(x)) for x in e.expr.args]
            want = ["self.manager.sid_from_eio_sid(%s, %s or '/')" % (
                eio_p, ns_p), id_p, data_p]
            ctx.check(a == want and e.recv() == 'self.manager', construct,
                      'callback table keyed by the sid of (own transport, '
                      'packet namespace) and the packet\'s own id',
                      key='ack-provenance', reason='trigger_callback(%s)'
                      % ', '.join(a), where=where(f, e.node))
    if not n:
        ctx.bad(construct, 'no-trigger', 'ACKs no longer reach '
                'trigger_callback', where(f))


def call_result(ctx, cname, rid):
    """C02.R4 / C06.R6 / C09.R5: call() result shaping."""
    m = ctx.model
    f = m.method(cname, 'call')
    construct = cname + '.call'
    w = where(f)
    cbname = None
    for n in (0, 1, 2):
        for waited in (True, False):
            def oracle(atom, run, st, n=n, waited=waited):
                a = run.expand(atom)
                t = U(strip_await(a))
                raw = atom

                def is_collector(x):
                    d = run.sym_of(x)
                    return bool(d and isinstance(d['expr'], ast.List) and
                                not d['expr'].elts)

                def first_of_collector(x):
                    if isinstance(x, ast.Subscript) and \
                            is_const(x.slice, 0) and is_collector(x.value):
                        return True
                    d = run.sym_of(x)
                    return bool(d and d['expr'] is not None and
                                first_of_collector(d['expr']))

                def val(node):
                    if isinstance(node, ast.Constant) and \
                            isinstance(node.value, int):
                        return node.value
                    if isinstance(node, ast.Call) and \
                            U(node.func) == 'len' and \
                            first_of_collector(node.args[0]):
                        return n
                    return None
                if isinstance(raw, ast.Compare):
                    r = eval_cmp(raw, val)
                    if r is not None:
                        return r
                if isinstance(strip_await(a), ast.Call) and \
                        U(strip_await(a).func).endswith('.wait') and \
                        'create_event()' in t:
                    return waited
                if t in ('to is None', 'sid is None'):
                    return False
                if t == 'self.async_handlers':
                    return True
                return None

            def raiser(e, waited=waited):
                if e.callee() == 'wait_for':
                    return {'TimeoutError'} if not waited else None
                return None
            run = run_function(f, ctx.model, oracle=oracle, raiser=raiser)
            paths = run.paths
            if f.is_async:
                # wait_for either times out (raiser) or completes
                paths = [p for p in paths if (p.exit == 'exc' or any(
                    e.kind == 'caught' for e in p.events)) == (not waited)]
            if not paths:
                raise AnalysisError('%s: no path for len=%d waited=%s'
                                    % (construct, n, waited))
            if len(paths) > 8:
                raise AnalysisError('%s: %d paths for len=%d waited=%s; a '
                                    'test is outside the abstraction'
                                    % (construct, len(paths), n, waited))
            for p in paths:
                row = 'len(args)=%s wait=%s' % (n if n < 2 else '2+',
                                                'ok' if waited else 'timeout')
                if not waited:
                    ctx.check(p.exit == 'raise' and 'TimeoutError' in U(p.value)
                              and 'asyncio' not in U(p.value), construct,
                              '[%s] raises socketio TimeoutError' % row,
                              key='timeout', reason='on wait failure: exit %s %s'
                              % (p.exit, txt(p.value)), where=w, rid=rid)
                    continue
                keep = lambda d: isinstance(d['expr'], ast.List) and \
                    not d['expr'].elts
                v = run.pretty(run.expand(p.value, keep=keep)) \
                    if p.exit == 'return' else p.exit
                coll = [k for k, d in run.symdefs.items()
                        if isinstance(d['expr'], ast.List) and
                        not d['expr'].elts and d['kind'] == 'assign']
                cn = run.symdefs[coll[0]]['name'] if coll else 'callback_args'
                want = {0: 'None', 1: cn + '[0][0]', 2: cn + '[0]'}[n]
                ctx.check(v == want, construct, '[%s] returns %s' % (row, want),
                          key='result ' + row, reason='row {%s}: call() returns '
                          '%s, expected %s' % (row, v, want), where=w,
                          witness=row, rid=rid)
                em = p.calls('emit')
                okem = len(em) == 1 and U(dict(
                    (k.arg, k.value) for k in em[0].expr.keywords).get(
                        'callback')) == 'event_callback' and \
                    em[0].recv() == 'self'
                ctx.check(okem, construct, '[%s] emits once with the local '
                          'collector as callback' % row, key='call-emit',
                          where=w, rid=rid)
    cb = m.nested(f, 'event_callback')
    run = run_function(cb, m)
    ok = all(any(e.callee() == 'append' and
                 U(e.expr.args[0]) == cb.vararg for e in p.calls()) and
             any(e.callee() == 'set' for e in p.calls())
             for p in run.paths) and cb.vararg
    ctx.check(ok, construct + '.event_callback', 'collector records *args '
              'and signals the event', key='collector', where=where(cb),
              rid=rid)


def run(ctx):
    ctx.rule('C06.R7', 'call() emits its own event, data, addressee (to or '
             'sid), namespace and ignore_queue with a fresh callback', floor=2)
    for fam in SA:
        msgpath.call_forwarding(ctx, SERVER[fam], True, 'C06.R7')
    ctx.rule('C06.R1', 'trigger_callback: delete exactly the looked-up '
             'entry before invoking; unknown id is a silent no-op', floor=8)
    for fam in SA:
        msgpath.callback_typestate(ctx, MANAGER[fam], 'trigger_callback',
                                   ('sid', 'id'), 'C06.R1')
    ctx.rule('C06.R2', 'values stored among the callbacks are callbacks; '
             'anything else sits under a non-wire key', floor=2)
    msgpath.table_provenance(ctx, 'BaseManager', 'C06.R2')
    from .common import shared_table_aliasing
    shared_table_aliasing(
        ctx, ('callbacks',), 'a callback stored for one namespace / client '
        'is completed by an acknowledgement bearing the same id on another')
    ctx.rule('C06.R8', 'who may touch the callbacks table', floor=8)
    from .common import table_owners
    table_owners(ctx, 'callbacks', ('BaseManager',),
                 ('__init__', '_generate_ack_id', 'trigger_callback',
                  'basic_disconnect'), 'C06.R8',
                 'an entry is created with its id, taken out by the one '
                 'acknowledgement that bears the id, and dropped with the '
                 'client; a second reader can hand the same callback out '
                 'under another id (invoked twice), a second writer can '
                 'drop it while its acknowledgement is in flight (never '
                 'invoked)')
    ctx.rule('C06.R3', 'one fresh id per recipient, sent to that '
             'recipient\'s transport', floor=6)
    for fam in SA:
        r3_fresh_id(ctx, fam)
    ctx.rule('C06.R4', '_handle_ack: sid resolved from (own transport, '
             'packet namespace)', floor=4)
    for fam in SA:
        r4_handle_ack(ctx, fam)
    ctx.rule('C06.R5', 'one id counter per client, created once; callback '
             'stored under the returned id', floor=5)
    msgpath.counter_discipline(ctx, 'BaseManager', 'sid', 'C06.R5')
    ctx.rule('C06.R6', 'call(): None / single value / tuple over '
             'len in {0,1,2+}; TimeoutError on wait failure', floor=14)
    for fam in SA:
        call_result(ctx, SERVER[fam], 'C06.R6')
    ctx.rule('C11.R1', 'outstanding callbacks are dropped when the client '
             'disconnects (shared rule)', floor=3)
    from .c11 import r1_sid_tables
    r1_sid_tables(ctx)
    ctx.rule('C04.R4', 'a refused connection is a disconnect too: every '
             'refusing path of _handle_connect releases the client, for both '
             'settings of always_connect - the release is what drops the '
             'callbacks a connect handler left outstanding, so that a late '
             'ACK of the refused client completes nothing (shared rule)',
             floor=20)
    from .c04 import r4_connect
    for fam in SA:
        r4_connect(ctx, fam)
    ctx.assume('histories with reconnects are covered only through table '
               'cleanup at disconnect (C11.R1)')
    ctx.assume('ack ids decoded from the wire are ints (default '
               'serializer) or msgpack values; none can be identical to a '
               'module-private object() sentinel')
