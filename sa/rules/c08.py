"""C08 - client state mirrors the server; disconnect reported once per
namespace.

R1 namespace guard: emit raises BadNamespaceError under `namespace not in
   self.namespaces` before any id generation or send; send/call reach the
   transport only through emit.
R2 one CONNECT per requested namespace carrying the auth payload; connect()
   records the requested namespaces before the transport connects.
R3 full reset at transport end: namespaces, connected, callbacks,
   _binary_packet, sid are reset on every path of _handle_eio_disconnect.
R4 state mirror updates: _handle_disconnect removes the namespace on every
   normal path and clears `connected` with the last one; _handle_connect
   records the sid and triggers 'connect' only for a namespace not yet
   listed; _handle_error removes the namespace.
R5 'disconnect' is triggered only in _handle_disconnect and in
   _handle_eio_disconnect (loop over the connected namespaces under
   `connected`, followed by the reset).
R6 failed wait: ConnectionError for missing namespaces is preceded by
   self.disconnect(); `connected` is set only when every requested namespace
   was accepted (or no wait was asked).
R7 disconnect() always closes the transport.
R8 lowering the flag is final: a packet handler (_handle_error,
   _handle_disconnect) that lowers `connected` also closes the transport on
   that path - otherwise the CONNECT answers still in flight are processed
   afterwards (_handle_connect has no flag test) and list namespaces under a
   lowered flag, whose disconnect is then never reported.
"""
import ast

from ..model import AnalysisError
from ..sym import U, is_const, Run, run_function
from ..util import bind_call, strip_await, where, same, SA, CLIENT, walk_own
from .common import sends, txt, trigger_calls, effects

NSX = "namespace or '/'"

# per-connection attributes that must be reset when the transport ends, and
# the attributes of BaseClient.__init__ that deliberately survive it
RESET = {'namespaces': 'empty', 'connected': 'false', 'callbacks': 'empty',
         '_binary_packet': 'none', 'sid': 'none'}
SURVIVES = {
    'connection_url': 'needed by reconnection', 'connection_headers': 'same',
    'connection_auth': 'same', 'connection_transports': 'same',
    'connection_namespaces': 'same', 'socketio_path': 'same',
    '_connect_event': 'reused by the next connect()',
    '_reconnect_task': 'C10', '_reconnect_abort': 'C10',
    'handlers': 'registry', 'namespace_handlers': 'registry',
    'reconnection': 'configuration', 'reconnection_attempts': 'configuration',
    'reconnection_delay': 'configuration',
    'reconnection_delay_max': 'configuration',
    'randomization_factor': 'configuration', 'handle_sigint': 'configuration',
    'packet_class': 'configuration', 'eio': 'transport object',
    'logger': 'configuration',
}


def in_namespaces(a, key_ast=None):
    return isinstance(a, ast.Compare) and isinstance(a.ops[0], ast.In) and \
        U(a.comparators[0]) == 'self.namespaces' and \
        (key_ast is None or U(a.left) == key_ast)


def r1_guard(ctx, fam):
    m = ctx.model
    C = CLIENT[fam]
    f = m.method(C, 'emit')
    construct = C + '.emit'
    run = run_function(f, m)
    n_ok = n_raise = 0
    for p in run.paths:
        g = None
        for c in p.conds:
            if in_namespaces(run.expand(c.atom), NSX):
                g = c
        acts = [e for e in p.events if e.kind == 'call' and
                e.callee() in ('_generate_ack_id', '_send_packet', 'send')]
        if g is None:
            ctx.bad(construct, 'unguarded', 'a path of emit never tests the '
                    'namespace against self.namespaces: '
                    + p.describe()[:120], where(f))
            continue
        if g.pol:
            n_ok += 1
            ctx.check(all(e.idx >= g.at for e in acts) and acts, construct,
                      'id generation and send happen after the namespace '
                      'guard', key='guard-order', reason='emit generates an '
                      'id or sends before testing the namespace',
                      where=where(f))
        else:
            n_raise += 1
            ctx.check(p.exit == 'raise' and 'BadNamespaceError' in U(p.value)
                      and not acts, construct, 'unconnected namespace: '
                      'BadNamespaceError, nothing sent, no id generated',
                      key='guard-raise', reason='on an unconnected namespace '
                      'emit does %s and exits with %s %s' % (
                          [e.callee() for e in acts], p.exit, txt(p.value)),
                      where=where(f))
    if not n_ok or not n_raise:
        ctx.bad(construct, 'guard-missing', 'emit lacks the namespace guard',
                where(f))
    for name in ('send', 'call'):
        g = m.method(C, name)
        direct = [c for c in walk_own(g.node) if isinstance(c, ast.Call) and
                  isinstance(c.func, ast.Attribute) and
                  (c.func.attr == '_send_packet' or
                   U(c.func) == 'self.eio.send')]
        em = [c for c in walk_own(g.node) if isinstance(c, ast.Call) and
              U(c.func) == 'self.emit']
        ctx.check(not direct and len(em) == 1, '%s.%s' % (C, name),
                  'reaches the transport only through emit',
                  key='bypass', reason='%s sends without going through '
                  'emit' % name, where=where(g))


def r2_connect_packets(ctx, fam):
    m = ctx.model
    C = CLIENT[fam]
    f = m.method(C, '_handle_eio_connect')
    construct = C + '._handle_eio_connect'
    run = run_function(f, m, max_iter=1)
    n = 0
    for p in run.paths:
        for e, pk, _ in sends(run, p):
            n += 1
            lv = run.sym_of(pk.get('namespace')) if pk and \
                pk.get('namespace') is not None else None
            d = strip_await(pk.get('data')) if pk and pk.get('data') \
                is not None else None
            okd = isinstance(d, ast.BoolOp) and isinstance(d.op, ast.Or) and \
                U(strip_await(d.values[0])) == \
                'self._get_real_value(self.connection_auth)'
            ctx.check(pk is not None and pk['type'] == 'CONNECT' and
                      lv is not None and lv['kind'] == 'loopvar' and
                      U(lv['expr']) == 'self.connection_namespaces' and okd,
                      construct, 'one CONNECT per requested namespace '
                      'carrying the (resolved) auth payload', key='connect',
                      reason='sends %s data=%s namespace from %s' % (
                          pk['type'] if pk else '?', txt(d),
                          U(lv['expr']) if lv else '?'),
                      where=where(f, e.node))
    if not n:
        ctx.bad(construct, 'no-connect', 'no CONNECT packet is sent', where(f))
    # the auth value (possibly a callable issuing one-time tokens) is
    # resolved once per transport connection, not once per namespace
    run2 = run_function(f, m, max_iter=2)
    worst = 0
    for p in run2.paths:
        k = len(sends(run2, p))
        ev = [e for e in p.calls('_get_real_value')
              if 'connection_auth' in U(e.expr)]
        if k >= 2:
            worst = max(worst, len(ev))
    ctx.check(worst <= 1, construct, 'the auth payload is resolved once per '
              'connection', key='auth-once', reason='with two requested '
              'namespaces the auth value is resolved %d times: a callable '
              'auth (token issuer, nonce) runs once per namespace and the '
              'namespaces of one connection are sent different payloads'
              % worst, where=where(f))
    g = m.method(C, 'connect')
    # the default namespace list (namespaces=None) is drawn from two
    # registries that may both name a namespace: it has to be built through a
    # duplicate-free construction, otherwise that namespace gets two CONNECT
    # packets (two sessions on the server, one known to the client)
    from ..sym import with_new_helpers
    for h in with_new_helpers(m, g):
        for node in walk_own(h.node):
            if not isinstance(node, (ast.Assign, ast.Return)) or \
                    node.value is None:
                continue
            v = node.value
            t = U(v)
            if 'self.handlers' in t and 'self.namespace_handlers' in t:
                dedup = any(
                    (isinstance(x, ast.Call) and (
                        U(x.func) in ('set', 'frozenset', 'dict.fromkeys') or
                        (isinstance(x.func, ast.Attribute) and
                         x.func.attr in ('union', 'fromkeys')))) or
                    isinstance(x, (ast.SetComp, ast.DictComp, ast.Set)) or
                    (isinstance(x, ast.BinOp) and
                     isinstance(x.op, ast.BitOr))
                    for x in ast.walk(v))
                ctx.check(dedup, C + '.' + h.name, 'the default namespace '
                          'list is the duplicate-free union of the two '
                          'handler registries', key='default-namespaces-set',
                          reason='the namespaces to connect are collected '
                          'from handlers and namespace_handlers as %s: a '
                          'namespace served by both a function handler and a '
                          'class-based namespace is requested twice'
                          % t[:90], where=where(h, node))
    run = run_function(g, m, max_iter=1)
    for p in run.paths:
        ec = [e for e in p.calls('connect') if e.recv() == 'self.eio']
        for e in ec:
            st = [s for s in p.events[:e.idx] if s.kind == 'store' and
                  U(s.expr) == 'self.connection_namespaces']
            ns_reset = [s for s in p.events[:e.idx] if s.kind == 'store' and
                        U(s.expr) == 'self.namespaces' and
                        isinstance(s.extra, ast.Dict) and not s.extra.keys]
            ctx.check(bool(st) and bool(ns_reset), C + '.connect',
                      'requested namespaces recorded and the accepted set '
                      'emptied before the transport connects',
                      key='connect-prep', where=where(g, e.node))
            break


def reset_ok(run, p, attr, kind):
    for e in p.events:
        if e.kind == 'store' and U(e.expr) == 'self.' + attr:
            v = e.extra
            if kind == 'empty' and isinstance(v, ast.Dict) and not v.keys:
                return True
            if kind == 'false' and is_const(v, False):
                return True
            if kind == 'none' and is_const(v, None):
                return True
        if kind == 'empty' and e.kind == 'call' and e.callee() == 'clear' \
                and e.recv() == 'self.' + attr:
            return True
    for c in p.conds:
        if not c.pol and U(run.expand(c.atom)) == 'self.' + attr and \
                kind == 'false' and not any(
                    e.kind == 'store' and U(e.expr) == 'self.' + attr
                    for e in p.events):
            return True
    return False


def r3_reset(ctx, fam):
    m = ctx.model
    C = CLIENT[fam]
    f = m.method(C, '_handle_eio_disconnect')
    construct = C + '._handle_eio_disconnect'
    run = run_function(f, m, max_iter=1)
    for attr, kind in RESET.items():
        bad = None
        for p in run.paths:
            if p.normal and not reset_ok(run, p, attr, kind):
                bad = p
                break
        ctx.check(bad is None, construct, 'self.%s is reset on every path'
                  % attr, key='%s not reset' % attr,
                  reason='self.%s survives the end of the transport on path '
                  '%s' % (attr, bad.describe()[:140] if bad else ''),
                  where=where(f), witness=attr)
    # classification of BaseClient attributes
    init = m.method('BaseClient', '__init__')
    for n in walk_own(init.node):
        if isinstance(n, ast.Assign):
            for t in n.targets:
                if isinstance(t, ast.Attribute) and U(t.value) == 'self' \
                        and t.attr not in RESET and t.attr not in SURVIVES:
                    ctx.info('BaseClient attribute %s is unclassified '
                             '(neither reset at transport end nor listed as '
                             'surviving)' % t.attr)


def removes_ns(run, p, key):
    for e in p.events:
        if e.kind == 'del' and U(run.expand(e.expr)) == \
                'self.namespaces[%s]' % key:
            return True
        if e.kind == 'call' and e.callee() == 'pop' and \
                e.recv() == 'self.namespaces' and \
                U(run.expand(e.expr.args[0])) == key:
            return True
        if e.kind == 'store' and U(e.expr) == 'self.namespaces' and \
                isinstance(e.extra, ast.Dict) and not e.extra.keys:
            return True
    return False


def r4_mirror(ctx, fam):
    m = ctx.model
    C = CLIENT[fam]
    f = m.method(C, '_handle_disconnect')
    construct = C + '._handle_disconnect'
    run = run_function(f, m)
    for p in run.paths:
        if not p.normal:
            continue
        absent = any(not c.pol and in_namespaces(run.expand(c.atom), NSX)
                     for c in p.conds)
        ok = removes_ns(run, p, NSX) or absent
        ctx.check(ok, construct, 'the ended namespace is not listed '
                  'afterwards', key='normal exit without removing the '
                  'namespace', reason='a server DISCONNECT leaves the '
                  'namespace listed on path %s' % p.describe()[:140],
                  where=where(f))
        last = [c for c in p.conds if U(run.expand(c.atom)) ==
                'self.namespaces' and not c.pol and
                any(e.kind == 'del' and e.idx < c.at for e in p.events)]
        if last:
            st = [e for e in p.events if e.kind == 'store' and
                  U(e.expr) == 'self.connected' and is_const(e.extra, False)]
            ab = [e for e in p.calls('disconnect') if e.recv() == 'self.eio']
            ctx.check(bool(st) and bool(ab), construct, 'last namespace '
                      'gone: connected cleared and the transport closed',
                      key='last-namespace', where=where(f))
    f = m.method(C, '_handle_connect')
    construct = C + '._handle_connect'
    run = run_function(f, m)
    n_new = 0
    for p in run.paths:
        if not p.normal:
            continue
        trig = trigger_calls(p, 'connect')
        st = [e for e in p.events if e.kind == 'store' and
              U(e.expr) == 'self.namespaces[%s]' % NSX]
        listed = None
        for c in p.conds:
            if in_namespaces(run.expand(c.atom), NSX):
                listed = c.pol
        if listed is False:
            n_new += 1
            v = U(run.expand(st[0].extra)) if st else None
            ctx.check(len(st) == 1 and len(trig) == 1 and
                      st[0].idx < trig[0].idx and
                      v == "(data or {}).get('sid', self.sid)" and
                      any(e.callee() == 'set' and
                          e.recv() == 'self._connect_event'
                          for e in p.calls()), construct,
                      'new namespace: sid recorded, then the connect '
                      'handler, then the waiter is signalled',
                      key='connect-record', reason='records %s, triggers %d'
                      % (v, len(trig)), where=where(f))
        else:
            ctx.check(not trig and not st, construct, 'a repeated CONNECT '
                      'neither re-runs the handler nor overwrites the sid',
                      key='connect-repeat', where=where(f))
    if not n_new:
        ctx.bad(construct, 'no-guard', '_handle_connect lacks the `not in '
                'self.namespaces` guard', where(f))
    f = m.method(C, '_handle_error')
    construct = C + '._handle_error'
    run = run_function(f, m)
    for p in run.paths:
        if not p.normal:
            continue
        absent = any(not c.pol and in_namespaces(run.expand(c.atom), NSX)
                     for c in p.conds)
        trig = trigger_calls(p, 'connect_error')
        sig = any(e.callee() == 'set' and e.recv() == 'self._connect_event'
                  for e in p.calls())
        ctx.check((removes_ns(run, p, NSX) or absent) and len(trig) == 1
                  and sig, construct, 'refusal: connect_error reported, the '
                  'namespace is not listed afterwards, the waiter is '
                  'signalled', key='error-mirror', where=where(f))


def r5_disconnect_sites(ctx, fam):
    m = ctx.model
    C = CLIENT[fam]
    cls = m.cls(C)
    owners = set()
    for name, f in cls.methods.items():
        for n in walk_own(f.node):
            if isinstance(n, ast.Call) and isinstance(n.func, ast.Attribute) \
                    and n.func.attr == '_trigger_event' and n.args and \
                    is_const(n.args[0], 'disconnect'):
                owners.add(name)
    ctx.check(owners == {'_handle_disconnect', '_handle_eio_disconnect'},
              C, "'disconnect' is triggered only by _handle_disconnect and "
              '_handle_eio_disconnect', key='owners',
              reason="'disconnect' triggered from %s" % sorted(owners),
              where=cls.module.relpath)
    f = m.method(C, '_handle_eio_disconnect')
    construct = C + '._handle_eio_disconnect'
    run = run_function(f, m, max_iter=2)
    seen = False
    for p in run.paths:
        trig = trigger_calls(p, 'disconnect')
        for t in trig:
            seen = True
            lv = run.sym_of(t.expr.args[1])
            g = [c for c in p.conds if c.at <= t.idx and c.pol and
                 U(run.expand(c.atom)) == 'self.connected']
            rs = [e for e in p.events if e.idx > t.idx and (
                (e.kind == 'store' and U(e.expr) == 'self.namespaces') or
                (e.kind == 'call' and e.callee() == 'clear' and
                 e.recv() == 'self.namespaces'))]
            ctx.check(lv is not None and lv['kind'] == 'loopvar' and
                      U(lv['expr']) == 'self.namespaces' and bool(g) and
                      (bool(rs) or not p.normal) and
                      U(t.expr.args[2]) == f.params[1], construct,
                      'one disconnect per listed namespace, only while '
                      'connected, with the transport\'s reason, followed by '
                      'the reset', key='loop', where=where(f, t.node))
        # distinct namespaces per iteration
        if len(trig) == 2:
            ctx.check(U(trig[0].expr.args[1]) != U(trig[1].expr.args[1]),
                      construct, 'successive iterations report different '
                      'namespaces', key='loop-var', where=where(f))
    if not seen:
        ctx.bad(construct, 'no-trigger', 'transport loss no longer reports '
                'disconnect per namespace', where(f))
    f = m.method(C, '_handle_disconnect')
    run = run_function(f, m)
    for p in run.paths:
        for t in trigger_calls(p, 'disconnect'):
            ctx.check(U(run.expand(t.expr.args[1])) == NSX and
                      U(run.expand(t.expr.args[2])) ==
                      'self.reason.SERVER_DISCONNECT',
                      C + '._handle_disconnect', 'reports the ended '
                      'namespace with SERVER_DISCONNECT', key='reason',
                      where=where(f, t.node))


def r6_failed_wait(ctx, fam):
    m = ctx.model
    C = CLIENT[fam]
    f = m.method(C, 'connect')
    construct = C + '.connect'

    def raiser(e):
        if e.callee() == 'connect' and e.recv() == 'self.eio':
            return {'ConnectionError'}
        if e.callee() == 'wait_for':
            return {'TimeoutError'}
        return None
    run = run_function(f, m, max_iter=1, raiser=raiser, max_paths=400000)
    n_fail = n_ok = 0
    for p in run.paths:
        ec = [e for e in p.calls('connect') if e.recv() == 'self.eio']
        if p.exit == 'raise' and 'ConnectionError' in U(p.value) and ec and \
                not any(e.kind == 'caught' and
                        'ConnectionError' in U(e.expr) for e in p.events):
            n_fail += 1
            d = [e for e in p.calls('disconnect') if e.recv() == 'self']
            ctx.check(bool(d), construct, 'ConnectionError for missing '
                      'namespaces is preceded by self.disconnect()',
                      key='failed-wait', reason='connect() raises '
                      'ConnectionError after the transport connected '
                      'without disconnecting it', where=where(f))
            st = [e for e in p.events if e.kind == 'store' and
                  U(e.expr) == 'self.connected' and is_const(e.extra, True)]
            ctx.check(not st, construct, 'failed connect leaves connected '
                      'unset', key='failed-connected', where=where(f))
        if p.normal:
            st = [e for e in p.events if e.kind == 'store' and
                  U(e.expr) == 'self.connected' and is_const(e.extra, True)]
            if not st:
                continue
            n_ok += 1
            waited = None
            for c in p.conds:
                if U(run.expand(c.atom)) == 'wait':
                    waited = c.pol
            if waited:
                eq = [c for c in p.conds if c.at <= st[0].idx and
                      U(run.expand(c.atom)) == 'set(self.namespaces) == '
                      'set(self.connection_namespaces)' and c.pol]
                ctx.check(bool(eq), construct, 'with wait: connected is set '
                          'only after every requested namespace was '
                          'accepted', key='connected-early',
                          reason='connected=True reachable with wait=True '
                          'without the accepted set equalling the requested '
                          'set: ' + p.describe()[:160], where=where(f))
    if not n_fail or not n_ok:
        ctx.bad(construct, 'paths', 'connect lacks the failed-wait or the '
                'success path', where(f))
    # transport failure: connect_error is reported for every requested
    # namespace before the error is raised / the retry starts
    n_tf = 0
    seen_tf = set()
    any_report = [False]
    for p in run.paths:
        cg = [e for e in p.events if e.kind == 'caught' and
              'ConnectionError' in U(e.expr)]
        if not cg:
            continue
        n_tf += 1
        trig = [t for t in trigger_calls(p, 'connect_error')
                if t.idx > cg[0].idx]
        its = [e for e in p.events if e.kind == 'iter' and e.idx > cg[0].idx
               and U(run.expand(e.expr)) == 'self.connection_namespaces']
        if its and not trig:
            continue    # zero-iteration path of the reporting loop
        any_report[0] = any_report[0] or bool(trig)
        ok = bool(trig)
        for t in trig:
            lv = run.sym_of(t.expr.args[1]) if len(t.expr.args) > 1 else None
            ok = ok and lv is not None and lv['kind'] == 'loopvar' and \
                U(lv['expr']) == 'self.connection_namespaces'
        if p.exit == 'cut':
            continue
        if ('rep', ok) not in seen_tf:
            seen_tf.add(('rep', ok))
            ctx.check(ok, construct, 'transport failure: connect_error is '
                      'reported for each requested namespace',
                      key='transport-failure-report', reason='after the '
                      'transport failed connect_error is triggered as %s' % [
                          U(t.expr)[:60] for t in trig], where=where(f))
        retry = None
        for c in p.conds:
            if c.at >= cg[0].idx and U(c.atom) == 'retry':
                retry = c.pol
        hr = [e for e in p.calls('_handle_reconnect') if e.idx > cg[0].idx]
        if retry:
            good = len(hr) == 1
            stc = [c for c in p.conds if c.at > hr[0].idx and
                   U(run.expand(c.atom)) == "self.eio.state == 'connected'"] \
                if hr else []
            if p.normal:
                good = good and bool(stc) and stc[-1].pol
            elif p.exit == 'raise':
                good = good and bool(stc) and not stc[-1].pol
            if ('retry', good, p.exit) in seen_tf:
                continue
            seen_tf.add(('retry', good, p.exit))
            ctx.check(good, construct, 'retry=True: the reconnection logic '
                      'runs once; success iff the transport is connected '
                      'afterwards, ConnectionError otherwise',
                      key='retry-path', reason='retry path: %d '
                      '_handle_reconnect call(s), exit %s under %s' % (
                          len(hr), p.exit, [('' if c.pol else 'not ') +
                                            U(run.expand(c.atom))
                                            for c in stc]), where=where(f))
        elif retry is False:
            if ('noretry', not hr and p.exit == 'raise') in seen_tf:
                continue
            seen_tf.add(('noretry', not hr and p.exit == 'raise'))
            ctx.check(not hr and p.exit == 'raise', construct, 'retry=False: '
                      'ConnectionError is raised, no reconnection',
                      key='no-retry-path', where=where(f))
    if not n_tf:
        ctx.bad(construct, 'no-transport-failure-path', 'connect() does not '
                'handle a failing transport', where(f))
    elif not any_report[0]:
        ctx.bad(construct, 'transport-failure-unreported', 'a failing '
                'transport is not reported to the connect_error handlers',
                where(f))
    # the wait loop consumes each wake-up: the connect event is cleared after
    # every successful wait (otherwise the next wait returns at once, the
    # loop spins and the timeout that ends a refused connect never fires)
    loops = [n_ for n_ in walk_own(f.node) if isinstance(n_, ast.While)]
    for lp in loops:
        waits = [c for c in ast.walk(lp) if isinstance(c, ast.Call) and
                 isinstance(c.func, ast.Attribute) and
                 c.func.attr == 'wait' and '_connect_event' in U(c)]
        if not waits:
            continue
        clears = [c for c in ast.walk(lp) if isinstance(c, ast.Call) and
                  U(c.func) == 'self._connect_event.clear']
        ctx.check(bool(clears), construct, 'every wake-up of the namespace '
                  'wait is consumed (event cleared inside the loop)',
                  key='wait-consumed', reason='the wait loop never clears '
                  '_connect_event: after the first answer every wait '
                  'returns immediately, the loop spins and a refused '
                  'namespace never ends in ConnectionError',
                  where=where(f, lp))
    # already connected
    ctx.check(any(p.exit == 'raise' and 'ConnectionError' in U(p.value) and
                  any(c.pol and U(c.atom) == 'self.connected'
                      for c in p.conds) and not p.calls('connect')
                  for p in run.paths), construct, 'connect() on a connected '
              'client raises before touching anything', key='already',
              where=where(f))


def r7_disconnect_closes(ctx, fam):
    """disconnect() always ends the transport: every normal path sends a
    DISCONNECT for each listed namespace and then closes engine.io - also
    when no namespace was accepted yet (the failure path of connect()
    relies on it to leave the client fully disconnected)."""
    m = ctx.model
    C = CLIENT[fam]
    f = m.method(C, 'disconnect')
    construct = C + '.disconnect'
    run = run_function(f, m, max_iter=1)
    n = 0
    for p in run.paths:
        if not p.normal:
            continue
        n += 1
        close = [e for e in p.calls('disconnect') if e.recv() == 'self.eio']
        ctx.check(bool(close), construct, 'every normal path closes the '
                  'engine.io transport', key='transport-left-open',
                  reason='disconnect() can return without closing the '
                  'transport (%s): a failed connect() would leave it open '
                  'and a late CONNECT from the server would be accepted'
                  % p.describe()[:120], where=where(f))
        for e, pk, _ in sends(run, p):
            lv = run.sym_of(pk.get('namespace')) if pk and \
                pk.get('namespace') is not None else None
            ctx.check(pk is not None and pk['type'] == 'DISCONNECT' and
                      lv is not None and lv['kind'] == 'loopvar' and
                      U(lv['expr']) == 'self.namespaces' and
                      (not close or e.idx < close[0].idx), construct,
                      'a DISCONNECT per listed namespace precedes the close',
                      key='disconnect-packets', where=where(f, e.node))
    if not n:
        ctx.bad(construct, 'no-normal-path', 'disconnect() never returns',
                where(f))


def r8_lowering_final(ctx, fam):
    m = ctx.model
    C = CLIENT[fam]
    n = 0
    for name in ('_handle_error', '_handle_disconnect'):
        f = m.method(C, name)
        construct = '%s.%s' % (C, name)
        run = run_function(f, m)
        seen = set()
        for p in run.paths:
            if not p.normal:
                continue
            low = [e for e in p.events if e.kind == 'store' and
                   U(e.expr) == 'self.connected' and
                   not is_const(e.extra, True)]
            if not low:
                continue
            n += 1
            closes = [e for e in p.calls('disconnect')
                      if e.recv() == 'self.eio']
            guard = [c for c in p.conds if c.at <= low[0].idx]
            g = guard[-1] if guard else None
            gtxt = ('' if g is None or g.pol else 'not ') + (
                U(run.expand(g.atom)) if g is not None else 'always')
            if (gtxt, bool(closes)) in seen:
                continue
            seen.add((gtxt, bool(closes)))
            for cl in closes:
                ab = {k.arg: k.value for k in cl.expr.keywords}.get('abort')
                ctx.check(is_const(ab, True), construct, 'the transport is '
                          'closed with abort=True (the handler runs on the '
                          'transport\'s own read loop, which a non-aborting '
                          'close would wait for)', key='close-abort',
                          reason='eio.disconnect(abort=%s) from a packet '
                          'handler: the close joins the read loop it is '
                          'running on' % txt(ab), where=where(f, cl.node))
            ctx.check(bool(closes), construct, '`connected` lowered when %s: '
                      'the transport is closed on the same path' % gtxt,
                      key='flag lowered with the transport left open when '
                      + gtxt, reason='`connected` is lowered (line %d) when '
                      '%s but the transport stays open: a CONNECT answer '
                      'that arrives afterwards lists its namespace (and runs '
                      'its connect handler) on a client that reports '
                      'connected == False, and the loss of the transport '
                      'then reports no disconnect for it'
                      % (low[0].lineno, gtxt), where=where(f, low[0].node))
    if n < 2:
        raise AnalysisError('%s: only %d flag-lowering handler paths found'
                            % (C, n))


def run(ctx):
    ctx.rule('C08.R8', 'a packet handler that lowers `connected` closes the '
             'transport on the same path', floor=4)
    for fam in SA:
        r8_lowering_final(ctx, fam)
    ctx.rule('C08.R7', 'disconnect() always closes the transport', floor=2)
    for fam in SA:
        r7_disconnect_closes(ctx, fam)
    ctx.rule('C08.R1', 'emit: BadNamespaceError before any id generation or '
             'send; send/call only through emit', floor=10)
    for fam in SA:
        r1_guard(ctx, fam)
    ctx.rule('C08.R2', 'CONNECT per requested namespace with auth; connect '
             'prepares the namespace tables', floor=4)
    for fam in SA:
        r2_connect_packets(ctx, fam)
    ctx.rule('C08.R3', 'full reset of the per-connection state on every '
             'path of _handle_eio_disconnect', floor=10)
    for fam in SA:
        r3_reset(ctx, fam)
    ctx.rule('C08.R4', 'state mirror: namespace removed on DISCONNECT / '
             'CONNECT_ERROR, recorded once on CONNECT', floor=16)
    for fam in SA:
        r4_mirror(ctx, fam)
    ctx.rule('C08.R5', "'disconnect' reported once per listed namespace",
             floor=8)
    for fam in SA:
        r5_disconnect_sites(ctx, fam)
    ctx.rule('C08.R6', 'failed wait disconnects before raising; connected '
             'only when all namespaces were accepted', floor=6)
    for fam in SA:
        r6_failed_wait(ctx, fam)
    ctx.rule('C13.R1', 'the connect / disconnect handlers that are run are '
             'the responsible ones with their own arguments: client resolver '
             'table over all registry states (shared rule)', floor=40)
    ctx.rule('C13.R2', 'client namespace-handler table (shared rule)',
             floor=4)
    ctx.rule('C13.R3', 'client _trigger_event passes the resolved arguments '
             'on (shared rule)', floor=10)
    from . import c13
    ctx._cur = 'C13.R1'
    c13.table_rule(ctx, 'BaseClient', '_get_event_handler', c13.event_states,
                   c13.spec_event, c13.names_event)
    ctx._cur = 'C13.R2'
    c13.table_rule(ctx, 'BaseClient', '_get_namespace_handler',
                   c13.ns_states, c13.spec_ns, c13.names_ns)
    ctx._cur = 'C13.R3'
    for cname in ('Client', 'AsyncClient'):
        c13.r3_trigger(ctx, cname, False)
    ctx.assume('all histories are NOT explored; the per-step state updates '
               'are decided on every path of each handler')
