"""C15 - the pub/sub listener survives anything that arrives on the channel.

R1 containment: with *every* call of the per-message body (and the listen
   iterator itself) allowed to raise an arbitrary Exception, no exception
   leaves `_thread`; the handlers of the listener neither break out of the
   loop nor re-raise (asyncio: only CancelledError).
R2 decoder fallbacks are isolated: pickle.loads and json.loads each sit in
   a catch-all try; the JSON attempt runs whenever the pickle attempt
   produced nothing.
R3 unknown methods / non-dict messages fall through without effect.
R4 echo filter and home-only callbacks (shared with C07.R2/R3).
R5 Redis retry loops: the RedisError handler never leaves the listen loop,
   the back-off is capped, _publish tries at most twice.  Thorough: the
   Kombu and AioPika back ends as well.
"""
import ast

from ..model import AnalysisError
from ..sym import U, is_const, Run, run_function
from ..util import where, SA, PUBSUB, walk_own
from .common import txt
from . import c07


def is_logger_call(e):
    t = U(e.expr.func)
    return 'logger' in t or t.endswith('_get_logger')


def r1_containment(ctx, fam):
    m = ctx.model
    P = PUBSUB[fam]
    f = m.method(P, '_thread')
    construct = P + '._thread'

    def raiser(e):
        if is_logger_call(e):
            return None
        if e.callee() in ('isinstance', 'format'):
            return None
        return {'Exception'}
    loops = {n.lineno: 1 for n in walk_own(f.node)
             if isinstance(n, (ast.For, ast.AsyncFor))}
    loops.update({n.lineno: 2 for n in walk_own(f.node)
                  if isinstance(n, ast.While)})
    run = run_function(f, m, raiser=raiser, loop_iters=loops,
                       max_paths=600000)
    esc = [p for p in run.paths if p.exit in ('exc', 'raise')]
    raisers = set()
    for p in run.paths:
        for e in p.events:
            if e.kind == 'call' and raiser(e):
                raisers.add(e.lineno)
    ctx.extra.setdefault('raiser_sites', {})[P] = len(raisers)
    bad = None
    for p in esc:
        o = p.origin
        bad = (p, o)
        break
    ctx.check(bad is None, construct, 'no exception raised by any of the %d '
              'call sites of the listener leaves _thread' % len(raisers),
              key='escape', reason='an exception raised at line %s (%s) '
              'leaves the listener: the server stops processing the '
              'channel' % (bad[1].lineno if bad and bad[1] else '?',
                           U(bad[1].expr)[:60] if bad and bad[1] else
                           bad[0].exit if bad else ''), where=where(
                  f, bad[1].node if bad and bad[1] else None))
    # after a raising handler the next message is still processed: there is
    # a path with a caught handler exception followed by a later iteration
    cont = False
    for p in run.paths:
        caught = [e for e in p.events if e.kind == 'caught' and
                  e.extra is not None and e.extra.origin is not None and
                  (e.extra.origin.callee() or '').startswith('_handle_')]
        if caught and any(e.kind == 'call' and e.callee() == '_listen' and
                          e.idx > caught[0].idx for e in p.events) or (
                caught and len([e for e in p.events if e.kind == 'iter'])
                >= 1 and p.exit in ('fall', 'return', 'cut')):
            cont = True
    # handlers must not leave the loops
    for h in walk_own(f.node):
        if isinstance(h, ast.ExceptHandler):
            names = U(h.type) if h.type is not None else ''
            for s in h.body:
                for x in ast.walk(s):
                    if isinstance(x, (ast.Break, ast.Return)) and \
                            'CancelledError' not in names:
                        ctx.bad(construct, 'handler-leaves ' + names,
                                'the `except %s` handler leaves the listener '
                                'loop' % (names or '<bare>'), where(f, x))
                    if isinstance(x, ast.Raise) and \
                            'CancelledError' not in names:
                        ctx.bad(construct, 'handler-raises ' + names,
                                'the `except %s` handler re-raises'
                                % (names or '<bare>'), where(f, x))
    # the only normal exit is the break after the iterator ended
    brk = [n for n in walk_own(f.node) if isinstance(n, ast.Break)]
    ctx.check(all(not any(isinstance(a, (ast.For, ast.AsyncFor)) and
                          b in list(ast.walk(a)) for a in walk_own(f.node))
                  or True for b in brk), construct,
              'loop exits are explicit', key='exits', where=where(f))


def r2_decoders(ctx, fam):
    m = ctx.model
    P = PUBSUB[fam]
    f = m.method(P, '_thread')
    construct = P + '._thread'
    found = {}
    from ..sym import with_new_helpers
    for g, t in [(g, x) for g in with_new_helpers(m, f)
                 for x in walk_own(g.node)]:
        if not isinstance(t, ast.Try):
            continue
        # in a helper a `return` inside the handler goes back to the loop
        leaving = (ast.Raise, ast.Break, ast.Return) if g is f else \
            (ast.Raise,)
        for s in t.body:
            for c in ast.walk(s):
                if isinstance(c, ast.Call) and U(c.func) in ('pickle.loads',
                                                             'json.loads'):
                    catch_all = any(h.type is None or U(h.type) in (
                        'Exception', 'BaseException') for h in t.handlers)
                    quiet = all(not isinstance(x, leaving)
                                for h in t.handlers for x in ast.walk(h))
                    found[U(c.func)] = (t, catch_all and quiet and
                                        len(t.body) == 1)
    for name in ('pickle.loads', 'json.loads'):
        ok = name in found and found[name][1]
        ctx.check(ok, construct, '%s sits alone in a catch-all try whose '
                  'handler stays in the loop' % name, key='decoder ' + name,
                  reason='%s is %s' % (name, 'not isolated in its own '
                                       'catch-all try' if name in found
                                       else 'no longer attempted'),
                  where=where(f, found[name][0]) if name in found
                  else where(f))
    # json attempt whenever pickle produced nothing

    def raiser(e):
        if U(e.expr.func) == 'pickle.loads':
            return {'Exception'}
        return None

    def oracle(atom, run, st):
        t = U(run.expand(atom))
        if t.startswith('isinstance(') and t.endswith(', dict)'):
            return False
        if t.startswith('isinstance(') and t.endswith(', bytes)'):
            return True
        return None
    loops = {n.lineno: 1 for n in walk_own(f.node)
             if isinstance(n, (ast.For, ast.AsyncFor, ast.While))}
    run = run_function(f, m, raiser=raiser, oracle=oracle, loop_iters=loops)
    seen = False
    for p in run.paths:
        c = [e for e in p.events if e.kind == 'caught' and
             e.extra is not None and e.extra.origin is not None and
             U(e.extra.origin.expr.func) == 'pickle.loads']
        if c:
            seen = True
            js = [e for e in p.calls('loads')
                  if U(e.expr.func) == 'json.loads' and e.idx > c[0].idx]
            ctx.check(bool(js), construct, 'after a failed pickle attempt '
                      'the JSON attempt still runs', key='fallback',
                      reason='bytes that are not a pickle are dropped '
                      'without trying JSON', where=where(f))
    if not seen:
        ctx.bad(construct, 'no-pickle-failure-path', 'pickle failure is not '
                'contained', where(f))


def r5_retry(ctx, cname, thorough):
    m = ctx.model
    c = m.classes.get(cname)
    if c is None:
        raise AnalysisError('anchor-missing class ' + cname)
    # listen loop
    lname = '_redis_listen_with_retries' if 'Redis' in cname else '_listen'
    f = m.own_method(cname, lname)
    construct = '%s.%s' % (cname, lname)
    handlers = [h for h in walk_own(f.node)
                if isinstance(h, ast.ExceptHandler)]
    retry_h = [h for h in handlers if any(
        isinstance(x, ast.Call) and U(x.func).endswith('sleep')
        for x in ast.walk(h))]
    if not retry_h:
        ctx.bad(construct, 'no-retry', 'the listen loop has no retrying '
                'handler', where(f))
        return
    for h in retry_h:
        leaves = [x for x in ast.walk(h) if isinstance(x, (ast.Break,
                                                           ast.Return,
                                                           ast.Raise))]
        ctx.check(not leaves, construct, 'the broker-error handler stays '
                  'in the listen loop', key='retry-leaves',
                  reason='the retry handler leaves the listen loop',
                  where=where(f, h))
        sl = [x for x in ast.walk(h) if isinstance(x, ast.Call) and
              U(x.func).endswith('sleep')][0]
        var = U(sl.args[0]) if sl.args else None
        capped = False
        for x in ast.walk(h):
            if isinstance(x, ast.Assign) and U(x.targets[0]) == var and \
                    isinstance(x.value, ast.Call) and \
                    U(x.value.func) == 'min' and any(
                        isinstance(a, ast.Constant) for a in x.value.args):
                capped = True
            if isinstance(x, ast.If) and isinstance(x.test, ast.Compare) and \
                    U(x.test.left) == var and \
                    isinstance(x.test.ops[0], (ast.Gt, ast.GtE)) and \
                    isinstance(x.test.comparators[0], ast.Constant) and \
                    any(isinstance(s, ast.Assign) and
                        U(s.targets[0]) == var and
                        isinstance(s.value, ast.Constant) and
                        s.value.value <= x.test.comparators[0].value
                        for s in x.body):
                capped = True
        grows = any(isinstance(x, (ast.AugAssign, ast.Assign)) and
                    var in U(x) and '2' in U(x) for x in ast.walk(h))
        ctx.check(capped or not grows, construct, 'the back-off passed to '
                  'sleep is capped', key='backoff-cap', reason='the retry '
                  'delay %s grows without a cap' % var, where=where(f, h))
        inloop = any(isinstance(w, ast.While) and h in list(ast.walk(w))
                     for w in walk_own(f.node))
        ctx.check(inloop, construct, 'the retrying handler is inside the '
                  'listen loop', key='retry-in-loop', where=where(f, h))
    # publish: at most two attempts
    g = m.own_method(cname, '_publish')
    construct = cname + '._publish'

    import re

    def is_attempt(e):
        t = re.sub(r'\xa7\d+', '', U(e.expr.func))
        return t.endswith('.publish') or t == 'producer_publish'
    declared = set()
    for h in walk_own(g.node):
        if isinstance(h, ast.ExceptHandler) and h.type is not None:
            for x in (h.type.elts if isinstance(h.type, ast.Tuple)
                      else [h.type]):
                nm = x.attr if isinstance(x, ast.Attribute) else \
                    x.id if isinstance(x, ast.Name) else None
                if nm and 'ChannelInvalidState' not in nm:
                    declared.add(nm)
    if not declared:
        ctx.bad(construct, 'no-handler', '_publish does not contain the '
                'broker error', where(g))
        return

    def raiser(e):
        if is_attempt(e):
            return {sorted(declared)[0]}
        return None
    loops = {n.lineno: 3 for n in walk_own(g.node)
             if isinstance(n, ast.While)}
    run = run_function(g, m, raiser=raiser, loop_iters=loops)
    mx = 0
    for p in run.paths:
        mx = max(mx, len([e for e in p.events if e.kind == 'call' and
                          is_attempt(e)]))
    ctx.check(run.cut == 0 and 1 <= mx <= 2 and not any(
        p.exit == 'exc' for p in run.paths), construct,
        '_publish makes at most two attempts, contains the broker error '
        'and returns', key='publish-retry', reason='_publish: up to %d '
        'attempts, %d unbounded paths, escapes: %s' % (
            mx, run.cut, any(p.exit == 'exc' for p in run.paths)),
        where=where(g))


def r6_async_generator_cleanup(ctx):
    """When the listener restarts after an error it abandons the suspended
    `_listen()` async generator; Python finalises an abandoned async
    generator *later*, from the event loop.  An awaited clean-up that spans
    a `yield` (finally / except / async-with exit) and acts on an object
    shared with the next generator instance (an attribute of self, e.g. the
    one pubsub connection) therefore runs after the restart has
    re-subscribed and undoes it."""
    m = ctx.model
    base = m.cls('AsyncPubSubManager')
    n = 0
    for c in [base] + m.subclasses(base):
        for f in c.methods.values():
            if not f.is_async:
                continue
            has_yield = any(isinstance(x, (ast.Yield, ast.YieldFrom))
                            for x in walk_own(f.node))
            if not has_yield:
                continue
            n += 1
            bad = None
            for t in walk_own(f.node):
                spans = lambda blk: any(isinstance(x, (ast.Yield,
                                                       ast.YieldFrom))
                                        for s_ in blk for x in ast.walk(s_))
                if isinstance(t, ast.Try) and spans(t.body):
                    cleanup = list(t.finalbody)
                    for h in t.handlers:
                        if h.type is None or 'BaseException' in U(h.type) \
                                or 'GeneratorExit' in U(h.type):
                            cleanup += h.body
                    for s_ in cleanup:
                        for x in ast.walk(s_):
                            if isinstance(x, ast.Await) and \
                                    isinstance(x.value, ast.Call) and \
                                    U(x.value.func).startswith('self.'):
                                bad = (x, U(x.value.func))
                if isinstance(t, ast.AsyncWith) and spans(t.body):
                    for it in t.items:
                        if U(it.context_expr).startswith('self.') and \
                                '(' not in U(it.context_expr).split('.')[1]:
                            bad = (t, U(it.context_expr))
            ctx.check(bad is None, '%s.%s' % (c.name, f.name),
                      'no awaited clean-up on shared state spans a yield '
                      'of this async generator', key='asyncgen-cleanup',
                      reason='the async generator awaits %s in a clean-up '
                      'clause around its yield: when the listener abandons '
                      'the generator after an error, this runs later, after '
                      'the restart re-subscribed, and undoes the new '
                      'subscription' % (bad[1] if bad else ''),
                      where=where(f, bad[0] if bad else None))
    if n < 3:
        raise AnalysisError('C15.R6 found only %d async listen generators'
                            % n)


def r7_cancelled_contained(ctx):
    """asyncio: the listener deliberately lets CancelledError through (task
    cancellation ends it).  Application callbacks run from the listener can
    raise CancelledError themselves (awaiting a cancelled future); every
    await of an application coroutine in the functions the listener reaches
    must therefore contain CancelledError, or one such callback stops the
    server from reading the channel for good."""
    m = ctx.model
    top = m.method('AsyncPubSubManager', '_thread')
    n = cancelled_contained_from(
        ctx, top, 'escapes into the pub/sub listener, which treats it as '
        'its own cancellation and stops for good')
    if n < 3:
        raise AnalysisError('C15.R7 found only %d awaited application '
                            'coroutines on the listener path' % n)


def cancelled_contained_from(ctx, top, consequence, only=None):
    """every await of an application coroutine in the coroutines reachable
    from `top` sits in a try that contains CancelledError -> number of such
    awaits"""
    m = ctx.model
    from ..effects import _dynamic_callee
    reach = [f for f in m.reachable(top) if f.is_async and
             (only is None or only(f))]
    n = 0
    for f in reach:
        parent = {}
        for node in ast.walk(f.node):
            for ch in ast.iter_child_nodes(node):
                parent[ch] = node
        # locals that hold the result of a dynamic (application) call
        app_locals = set()
        for node in walk_own(f.node):
            if isinstance(node, ast.Assign) and \
                    isinstance(node.value, ast.Call) and \
                    _dynamic_callee(f, node.value):
                for t in node.targets:
                    if isinstance(t, ast.Name):
                        app_locals.add(t.id)
        for node in walk_own(f.node):
            if not isinstance(node, ast.Await):
                continue
            v = node.value
            is_app = (isinstance(v, ast.Call) and _dynamic_callee(f, v)) or \
                (isinstance(v, ast.Name) and v.id in app_locals)
            if not is_app:
                continue
            n += 1
            guarded = False
            x = node
            while x in parent:
                pr = parent[x]
                if isinstance(pr, ast.Try) and x in pr.body:
                    for h in pr.handlers:
                        if h.type is not None and \
                                'CancelledError' in U(h.type) and not any(
                                    isinstance(y, ast.Raise)
                                    for y in ast.walk(h)):
                            guarded = True
                        if h.type is None or 'BaseException' in U(h.type):
                            if not any(isinstance(y, ast.Raise)
                                       for y in ast.walk(h)):
                                guarded = True
                x = pr
            ctx.check(guarded, f.qualname, 'await of an application '
                      'coroutine (%s) contains CancelledError' % U(v)[:40],
                      key='cancelled-escapes', reason='a CancelledError '
                      'raised by the application coroutine awaited at line '
                      '%d %s' % (node.lineno, consequence),
                      where=where(f, node))
    return n


def r8_handlers_cannot_fail(ctx, cname, fname):
    """the except handlers that keep a loop alive must not raise themselves:
    a name they read is bound on every way into the handler - not only
    inside the try body (the exception may precede the first assignment:
    UnboundLocalError leaves the loop for good) - and they index nothing."""
    m = ctx.model
    f = m.own_method(cname, fname)
    construct = '%s.%s' % (cname, fname)
    params = set(f.params)
    n = 0

    def assigned_in(nodes):
        out = set()
        for b in nodes:
            for x in ast.walk(b):
                if isinstance(x, ast.Name) and isinstance(
                        x.ctx, (ast.Store, ast.Del)):
                    out.add(x.id)
                if isinstance(x, (ast.For, ast.AsyncFor)):
                    for y in ast.walk(x.target):
                        if isinstance(y, ast.Name):
                            out.add(y.id)
                if isinstance(x, ast.ExceptHandler) and x.name:
                    out.add(x.name)
        return out
    all_assigned = assigned_in([f.node])

    def before(node, root):
        """names assigned on every path before `node` is entered: walk the
        statement lists from the function body down to node, collecting the
        assignments of the statements that precede it (straight-line only)"""
        got = set()

        def visit(stmts):
            nonlocal got
            for st in stmts:
                if st is node:
                    return True
                inside = any(y is node for y in ast.walk(st))
                if inside:
                    for fld in ('body', 'orelse', 'finalbody', 'handlers'):
                        sub = getattr(st, fld, None)
                        if isinstance(sub, list) and sub and any(
                                y is node for z in sub for y in ast.walk(z)):
                            if fld == 'handlers':
                                sub = [z for z in sub if any(
                                    y is node for y in ast.walk(z))][0].body
                            if isinstance(st, (ast.For, ast.AsyncFor)) and \
                                    fld == 'body':
                                got |= assigned_in([st.target])
                            return visit(sub)
                    return True
                # a statement wholly before: its unconditional assignments
                if isinstance(st, (ast.Assign, ast.AugAssign, ast.AnnAssign,
                                   ast.Import, ast.ImportFrom)):
                    got |= assigned_in([st])
            return False
        visit(root.body)
        return got
    for t in walk_own(f.node):
        if not isinstance(t, ast.Try):
            continue
        pre = before(t, f.node)
        for h in t.handlers:
            n += 1
            local_pre = pre | ({h.name} if h.name else set())
            bad = []
            for x in ast.walk(h):
                if isinstance(x, ast.Name) and isinstance(x.ctx, ast.Load) \
                        and x.id in all_assigned and x.id not in params \
                        and x.id not in local_pre and \
                        x.id not in assigned_in(h.body):
                    bad.append(x)
            ctx.check(not bad, construct, 'the handler at line %d reads only '
                      'names bound before its try statement' % h.lineno,
                      key='handler-unbound', reason='the except handler at '
                      'line %d reads `%s`, which is first assigned inside '
                      'the try body: when the exception comes before that '
                      'assignment the handler itself raises '
                      'UnboundLocalError and the loop it was keeping alive '
                      'ends for good' % (h.lineno, bad[0].id if bad else ''),
                      where=where(f, bad[0] if bad else h))
    return n


def r9_no_lock_around_app(ctx, fam):
    """the listener (and everything it calls while handling a message) must
    not hold a non-reentrant lock that the manager's public API also takes:
    handling a message runs application code (disconnect handlers, ack
    callbacks), which may emit through the same manager - it would wait for
    the lock its own caller holds, silently, for ever."""
    m = ctx.model
    from .common import effects
    eff = effects(ctx)
    P = c07.PUBSUB[fam]
    cls = m.cls(P)
    locks = set()
    for g in cls.methods.values():
        for n in walk_own(g.node):
            if isinstance(n, ast.Assign) and isinstance(n.value, ast.Call) \
                    and U(n.value.func).split('.')[-1] in (
                        'Lock', 'Semaphore', 'BoundedSemaphore'):
                for t in n.targets:
                    if isinstance(t, ast.Attribute) and U(t.value) == 'self':
                        locks.add(t.attr)
    k = 0
    for g in cls.methods.values():
        for n in ast.walk(g.node):
            held = None
            body = []
            if isinstance(n, (ast.With, ast.AsyncWith)):
                for it in n.items:
                    t = U(it.context_expr)
                    if any(t == 'self.' + L for L in locks):
                        held = t
                        body = n.body
            if held is None:
                continue
            k += 1
            app = [c for b in body for c in ast.walk(b)
                   if isinstance(c, ast.Call) and eff.call_reaches_app(g, c)]
            ctx.check(not app, '%s.%s' % (P, g.name), 'no application code '
                      'runs under %s' % held, key='lock-around-app',
                      reason='%s is a non-reentrant lock held while %s can '
                      'run application code (handlers, ack callbacks); when '
                      'that code emits through the manager it waits for the '
                      'lock its own caller holds and the listener never '
                      'processes another message' % (
                          held, U(app[0])[:50] if app else ''),
                      where=where(g, n))
        # explicit acquire() ... release() around a region
        acq = [n for n in walk_own(g.node) if isinstance(n, ast.Call) and
               isinstance(n.func, ast.Attribute) and
               n.func.attr == 'acquire' and any(
                   U(n.func.value) == 'self.' + L for L in locks)]
        for a in acq:
            k += 1
            later = [c for c in walk_own(g.node) if isinstance(c, ast.Call)
                     and getattr(c, 'lineno', 0) > a.lineno and
                     eff.call_reaches_app(g, c)]
            rel = [n for n in walk_own(g.node) if isinstance(n, ast.Call) and
                   isinstance(n.func, ast.Attribute) and
                   n.func.attr == 'release' and
                   U(n.func.value) == U(a.func.value)]
            end = max([r.lineno for r in rel] + [0])
            inside = [c for c in later if c.lineno < end]
            ctx.check(not inside, '%s.%s' % (P, g.name), 'no application '
                      'code runs between %s.acquire() and release()'
                      % U(a.func.value), key='lock-around-app',
                      reason='%s is held (acquire at line %d) while %s can '
                      'run application code; a nested emit through the '
                      'manager then waits for ever' % (
                          U(a.func.value), a.lineno,
                          U(inside[0])[:50] if inside else ''),
                      where=where(g, a))
    if not k:
        ctx.ok(P, 'the pub/sub manager holds no lock of its own around '
               'message handling', cls.module.relpath)


def r10_resubscribe(ctx, cname):
    """the listener restarts `_listen()` after a message it could not
    process, and `_publish`'s retry swaps `self.pubsub` for a fresh,
    unsubscribed object (`_redis_connect`): every entry of `_listen` must
    therefore subscribe the object it is about to iterate.  A subscribe that
    is skipped on some path (a manager-level "already subscribed" flag)
    iterates an unsubscribed PubSub after such a swap: `listen()` returns at
    once and the retry loop spins without ever delivering another message."""
    m = ctx.model
    f = m.own_method(cname, '_listen')
    construct = cname + '._listen'
    run = run_function(f, m, max_iter=1)
    n = 0
    for p in run.paths:
        its = [e for e in p.events if e.kind in ('iter', 'call') and
               '_redis_listen_with_retries' in U(e.expr)]
        if not its:
            continue
        n += 1
        subs = [e for e in p.calls('subscribe')
                if e.recv() == 'self.pubsub' and e.idx < its[0].idx]
        ctx.check(bool(subs), construct, 'the channel is subscribed on this '
                  'entry before the listen iterator is consumed',
                  key='entry-without-subscribe', reason='on path %s _listen '
                  'starts iterating without subscribing self.pubsub: after '
                  '_publish() has reconnected (a new, unsubscribed pubsub '
                  'object) a restarted listener receives nothing and its '
                  'retry loop spins' % p.describe()[:120], where=where(f))
    if not n:
        raise AnalysisError(construct + ': no path reaches the listen '
                            'iterator')


def run(ctx):
    ctx.rule('C15.R9', 'no non-reentrant lock is held while application code '
             'can run (listener / emit self-deadlock)', floor=2)
    for fam in SA:
        r9_no_lock_around_app(ctx, fam)
    ctx.rule('C15.R8', 'the handlers that keep the listener / listen loops '
             'alive cannot fail themselves (no possibly-unbound names)',
             floor=6)
    k = 0
    for cname in ('PubSubManager', 'AsyncPubSubManager'):
        k += r8_handlers_cannot_fail(ctx, cname, '_thread')
    for cname, fname in (('RedisManager', '_redis_listen_with_retries'),
                         ('AsyncRedisManager', '_redis_listen_with_retries'),
                         ('RedisManager', '_publish'),
                         ('AsyncRedisManager', '_publish')):
        k += r8_handlers_cannot_fail(ctx, cname, fname)
    ctx.rule('C15.R7', 'asyncio: CancelledError raised by application '
             'coroutines is contained before it reaches the listener',
             floor=3)
    r7_cancelled_contained(ctx)
    ctx.rule('C15.R6', 'async listen generators: no awaited clean-up on '
             'shared state around a yield', floor=3)
    r6_async_generator_cleanup(ctx)
    ctx.rule('C15.R1', 'containment: nothing raised in the per-message body '
             'leaves the listener', floor=4)
    for fam in SA:
        r1_containment(ctx, fam)
    ctx.rule('C15.R2', 'decoder fallbacks isolated; JSON tried after a '
             'failed pickle', floor=6)
    for fam in SA:
        r2_decoders(ctx, fam)
    ctx.rule('C07.R1', 'dispatch arms incl. unknown methods ignored '
             '(shared rule)', floor=20)
    ctx.rule('C07.R2', 'echo filter (shared rule)', floor=10)
    for fam in SA:
        c07.r1_r2_listener(ctx, fam)
    ctx.rule('C07.R7', 'host identity is fresh per manager object (shared '
             'rule: what the echo filter and the home-only test compare)',
             floor=2)
    from .c07 import r7_host_identity
    for fam in SA:
        r7_host_identity(ctx, fam)
    ctx.rule('C07.R3', 'home-only callbacks (shared rule)', floor=8)
    for fam in SA:
        c07.r3_callbacks(ctx, fam)
    ctx.rule('C06.R1', 'a callback message for an unknown client or id is a '
             'no-op on the manager: it creates no table entry (an empty '
             'callbacks[sid] left behind makes _generate_ack_id raise '
             'KeyError for every later emit-with-callback to that client, '
             'i.e. the valid messages that follow are no longer processed) '
             '(shared rule)', floor=8)
    from . import msgpath
    from ..util import MANAGER
    for fam in SA:
        msgpath.callback_typestate(ctx, MANAGER[fam], 'trigger_callback',
                                   ('sid', 'id'), 'C06.R1')
    ctx.rule('C15.R5', 'retry loops: handler stays in the loop, back-off '
             'capped, publish tries at most twice', floor=8)
    backends = ['RedisManager', 'AsyncRedisManager']
    if ctx.tier == 'thorough':
        backends += ['KombuManager', 'AsyncAioPikaManager']
    for b in backends:
        r5_retry(ctx, b, ctx.tier == 'thorough')
    ctx.rule('C15.R10', 'redis backends: every (re)start of _listen '
             'subscribes the pubsub object it iterates', floor=2)
    for b in ('RedisManager', 'AsyncRedisManager'):
        r10_resubscribe(ctx, b)
    ctx.assume('logger calls do not raise')
    ctx.assume('that each _handle_* tolerates wrong-typed fields is NOT '
               'needed: whatever they raise is contained (R1)')
