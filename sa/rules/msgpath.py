"""Rules on the message paths of server and client, shared by C05, C06, C09,
C12 and C02: packet-type dispatch table, binary reassembly, ACK
construction over id in {None, 0, positive}, ack packing, callback typestate,
callback-table provenance, ack id counter discipline."""
import ast

from ..model import AnalysisError
from ..sym import U, is_const, Run, run_function
from ..util import (bind_call, strip_await, where, same, SA, SERVER, CLIENT,
                    MANAGER, ns_or_default, eval_cmp, num_val, walk_own)
from .common import effects, sends, packet_ctor, txt

TYPES = ['CONNECT', 'DISCONNECT', 'EVENT', 'ACK', 'CONNECT_ERROR',
         'BINARY_EVENT', 'BINARY_ACK', 'OTHER']


def type_oracle(tname, binary_pending, attach_done=None):
    """Oracle for _handle_eio_message: the decoded packet has type tname;
    a partially received binary packet is / is not pending."""
    def oracle(atom, run, st):
        a = run.expand(atom)
        if isinstance(a, ast.Compare) and len(a.ops) == 1 and \
                isinstance(a.ops[0], ast.Eq):
            l, r = a.left, a.comparators[0]
            if isinstance(l, ast.Attribute) and l.attr == 'packet_type' and \
                    isinstance(r, ast.Attribute) and \
                    U(r.value) == 'packet':
                return r.attr == tname
        if isinstance(a, ast.Compare) and len(a.ops) == 1 and \
                isinstance(a.ops[0], ast.In) and \
                isinstance(a.left, ast.Attribute) and \
                a.left.attr == 'packet_type' and \
                isinstance(a.comparators[0], (ast.Tuple, ast.List)):
            return tname in [x.attr for x in a.comparators[0].elts
                             if isinstance(x, ast.Attribute)]
        t = U(a)
        if t.endswith(' in self._binary_packet') or \
                t == 'self._binary_packet':
            return binary_pending
        if isinstance(a, ast.Compare) and isinstance(a.ops[0], ast.Is) and \
                U(a.left) == 'self._binary_packet' and \
                is_const(a.comparators[0], None):
            return not binary_pending
        if isinstance(a, ast.Call) and isinstance(a.func, ast.Attribute) and \
                a.func.attr == 'add_attachment':
            return attach_done
        return None
    return oracle


def handler_calls(p):
    return [e for e in p.events if e.kind == 'call' and
            (e.callee() or '').startswith('_handle_') and
            e.recv() == 'self']


def dispatch_table(ctx, cname, server):
    """C05.R1 / C09.R1 / C12.R4,R5: one arm per packet type."""
    m = ctx.model
    f = m.method(cname, '_handle_eio_message')
    construct = cname + '._handle_eio_message'
    w = where(f)
    eio = f.params[1] if server else None
    datap = f.params[2] if server else f.params[1]
    pre = [eio] if server else []
    for t in TYPES:
        run = run_function(f, ctx.model, oracle=type_oracle(t, False))
        # a path that leaves before anything was decoded, dispatched or
        # stored (a guard dropping frames that cannot be packets) is not an
        # arm of the table
        paths = [p for p in run.paths if not (
            p.normal and not p.calls('packet_class') and
            not handler_calls(p) and
            not any(e.kind in ('store', 'del') for e in p.events))]
        if len(paths) != 1:
            # a gate in front of an arm: exactly one path acts (dispatches or
            # stores), the others drop the packet quietly.  The arm is
            # checked; whether dropping is right is the gate rules' business
            # (C05.R2 / C09 look for the connected-namespace test where the
            # handler is launched).
            acting = [q for q in paths if handler_calls(q) or any(
                e.kind in ('store', 'del') for e in q.events)]
            if len(acting) != 1 or not all(q.normal for q in paths):
                raise AnalysisError(
                    '%s: %d paths for packet type %s; a test in the dispatch '
                    'is outside the type abstraction' % (construct,
                                                         len(paths), t))
            paths = acting
        p = paths[0]
        hc = handler_calls(p)
        ctor = [e for e in p.calls('packet_class')]
        okc = len(ctor) == 1 and U(ctor[0].expr) == \
            'self.packet_class(encoded_packet=%s)' % datap
        ctx.check(okc, construct, '[%s] the frame is decoded once by '
                  'packet_class(encoded_packet=data)' % t, key='decode',
                  reason='type %s: packet constructed as %s' % (
                      t, [U(e.expr) for e in ctor]), where=w)
        if not okc:
            continue
        dec = ctor[0]
        # decode precedes every handler and is not inside a try/except
        ctx.check(all(h.idx > dec.idx for h in hc) and not any(
            part == 'body' and tr.handlers for tr, part in dec.trys),
            construct, '[%s] decoding precedes dispatch and its exception '
            'is not swallowed' % t, key='decode-order',
            reason='a handler runs before the frame is decoded, or the '
            'decode error is caught inside the library', where=w,
            rid=ctx._cur)

        def args_of(e):
            return [U(run.expand(a)) for a in e.expr.args] + \
                ['%s=%s' % (k.arg, U(run.expand(k.value)))
                 for k in e.expr.keywords]
        pk = U(dec.expr)
        want = None
        if t == 'CONNECT':
            want = ('_handle_connect', pre + [pk + '.namespace',
                                              pk + '.data'])
        elif t == 'DISCONNECT':
            want = ('_handle_disconnect', pre + [pk + '.namespace'] + (
                ['self.reason.CLIENT_DISCONNECT'] if server else []))
        elif t == 'EVENT':
            want = ('_handle_event', pre + [pk + '.namespace', pk + '.id',
                                            pk + '.data'])
        elif t == 'ACK':
            want = ('_handle_ack', pre + [pk + '.namespace', pk + '.id',
                                          pk + '.data'])
        elif t == 'CONNECT_ERROR' and not server:
            want = ('_handle_error', [pk + '.namespace', pk + '.data'])
        if want is not None:
            good = len(hc) == 1 and hc[0].callee() == want[0] and \
                args_of(hc[0]) == want[1] and p.exit in ('fall', 'return')
            ctx.check(good, construct, '[%s] -> %s(%s)' % (
                t, want[0], ', '.join(want[1])), key='arm ' + t,
                reason='packet type %s is dispatched as %s' % (
                    t, [(h.callee(), args_of(h)) for h in hc] or p.exit),
                where=w)
            if good and f.is_async:
                aw = [e for e in p.events if e.kind == 'await' and
                      isinstance(e.node, ast.Await) and
                      e.node.value is hc[0].node]
                ctx.check(bool(aw), construct, '[%s] the handler coroutine '
                          'is awaited' % t, key='await ' + t, where=w)
        elif t in ('BINARY_EVENT', 'BINARY_ACK'):
            # stores to other attributes (counters, statistics) are not the
            # parking slot and do not change what is parked
            st = [e for e in p.events if e.kind == 'store' and
                  '_binary_packet' in U(run.expand(e.expr))]
            tgt = 'self._binary_packet[%s]' % eio if server else \
                'self._binary_packet'
            good = not hc and len(st) == 1 and \
                U(run.expand(st[0].expr)) == tgt and \
                U(run.expand(st[0].extra)) == pk
            ctx.check(good, construct, '[%s] header is parked in %s, '
                      'nothing dispatched' % (t, tgt), key='arm ' + t,
                      reason='binary header of type %s: handlers %s, stores '
                      '%s' % (t, [h.callee() for h in hc],
                              [U(e.expr) for e in st]), where=w)
        else:
            ctx.check(not hc and p.exit == 'raise' and
                      'ValueError' in U(p.value), construct,
                      '[%s] rejected with ValueError, nothing dispatched'
                      % t, key='arm ' + t, reason='packet type %s: handlers '
                      '%s, exit %s' % (t, [h.callee() for h in hc], p.exit),
                      where=w)


def reassembly(ctx, cname, server):
    """C05.R7 / C09: with a binary packet pending, the frame is an
    attachment; dispatch only when complete, buffer entry removed first."""
    m = ctx.model
    f = m.method(cname, '_handle_eio_message')
    construct = cname + '._handle_eio_message'
    w = where(f)
    eio = f.params[1] if server else None
    datap = f.params[2] if server else f.params[1]
    tgt = 'self._binary_packet[%s]' % eio if server else 'self._binary_packet'
    for done in (True, False):
        for t in ('BINARY_EVENT', 'BINARY_ACK'):
            run = run_function(f, ctx.model, oracle=type_oracle(t, True, done))
            if not 1 <= len(run.paths) <= 8:
                raise AnalysisError('%s: %d paths in the attachment arm'
                                    % (construct, len(run.paths)))
            for p in run.paths:
                _reassembly_path(ctx, run, p, t, done, construct, w, tgt,
                                 datap, eio, server)


def _reassembly_path(ctx, run, p, t, done, construct, w, tgt, datap, eio,
                     server):
    if True:
        if True:
            extra = [('' if c.pol else 'not ') + c.text for c in p.conds
                     if '_binary_packet' not in U(run.expand(c.atom)) and
                     'add_attachment' not in U(run.expand(c.atom)) and
                     'packet_type' not in U(run.expand(c.atom))]
            hc = handler_calls(p)
            add = p.calls('add_attachment')
            okadd = len(add) == 1 and \
                U(run.expand(add[0].expr.func.value)) == tgt and \
                [U(a) for a in add[0].expr.args] == [datap]
            ctx.check(okadd and not p.calls('packet_class'), construct,
                      '[pending %s] the frame is handed to the pending '
                      'packet of this transport, not decoded' % t,
                      key='attach', reason='with a binary packet pending the '
                      'frame %s (attachment arm calls %s)%s' % (
                          'is not handed to it' if not add else 'is handed '
                          'on wrongly', [U(run.expand(e.expr))[:70]
                                         for e in add],
                          ' on the path where ' + ' and '.join(extra)
                          if extra else ''), where=w)
            if not okadd:
                return
            X = lambda n: U(run.expand(n))   # noqa: E731
            cleared = [e for e in p.events if
                       (e.kind == 'del' and X(e.expr) == tgt) or
                       (e.kind == 'store' and X(e.expr) == tgt and
                        is_const(e.extra, None)) or
                       (e.kind == 'call' and e.callee() == 'pop' and
                        X(e.expr.func.value) == 'self._binary_packet')]
            if not done:
                ctx.check(not hc and not cleared, construct,
                          '[pending %s, incomplete] nothing dispatched, '
                          'buffer kept' % t, key='incomplete',
                          reason='incomplete packet: handlers %s, cleared '
                          '%d' % ([h.callee() for h in hc], len(cleared)),
                          where=w)
                return
            want = '_handle_event' if t == 'BINARY_EVENT' else '_handle_ack'
            pre = [eio] if server else []
            pk = tgt
            good = len(hc) == 1 and hc[0].callee() == want and \
                [U(run.expand(a)) for a in hc[0].expr.args] == \
                pre + [pk + '.namespace', pk + '.id', pk + '.data']
            ctx.check(good, construct, '[pending %s, complete] -> %s with '
                      'the reassembled packet\'s namespace, id, data'
                      % (t, want), key='complete ' + t,
                      reason='completed %s dispatched as %s' % (
                          t, [(h.callee(), [U(run.expand(a))
                                            for a in h.expr.args])
                              for h in hc]), where=w)
            ctx.check(bool(cleared) and (not hc or
                                         cleared[0].idx < hc[0].idx),
                      construct, '[pending %s, complete] buffer entry '
                      'removed before dispatch' % t, key='clear-first',
                      reason='the pending-packet entry is %s' % (
                          'removed after the dispatch' if cleared else
                          'never removed'), where=w)


def id_oracle(idname, idval, handled, rname='r'):
    """id in {None, 0, 'pos'}; handled: r != not_handled"""
    def oracle(atom, run, st):
        a = run.expand(atom)
        t = U(a)
        if t == '%s is None' % idname:
            return idval is None
        if t == idname:
            return idval == 'pos'
        if idval is not None and isinstance(a, ast.Compare) and \
                not isinstance(a.ops[0], (ast.Is, ast.In)):
            r = eval_cmp(a, num_val({idname: {0: 0, 'pos': 7}[idval]}))
            if r is not None:
                return r
        if 'not_handled' in t and isinstance(a, ast.Compare):
            op = a.ops[0]
            if isinstance(op, (ast.Eq, ast.Is)):
                return not handled
        return None
    return oracle


def ack_packing(ctx, run, p, construct, w, rsym_pred, rid=None):
    """C02.R3: the ACK payload on path p: None -> [], tuple -> list(r),
    other -> [r].  Determined from the path's own conditions on r."""
    S = [(e, pk) for e, pk, _ in sends(run, p) if pk and pk['type'] == 'ACK']
    for e, pk in S:
        d = pk.get('data')
        r_none = r_tuple = None
        for c in p.conds:
            a = run.expand(c.atom)
            t = U(strip_await(a))
            if isinstance(a, ast.Compare) and isinstance(a.ops[0], ast.Is) \
                    and is_const(a.comparators[0], None) and \
                    rsym_pred(a.left):
                r_none = c.pol
            if isinstance(a, ast.Call) and U(a.func) == 'isinstance' and \
                    rsym_pred(a.args[0]):
                ty = a.args[1]
                names = [U(x) for x in (ty.elts if isinstance(ty, ast.Tuple)
                                        else [ty])]
                if names == ['tuple']:
                    r_tuple = c.pol
                else:
                    ctx.bad(construct, 'ack-packing isinstance %s'
                            % names, 'the return value is type-tested '
                            'against %s; only tuples are expanded' % names,
                            w, rid=rid)
        dt = U(d) if d is not None else None
        if r_none:
            good = dt == '[]'
            want = '[]'
        elif r_tuple:
            good = isinstance(d, ast.Call) and U(d.func) == 'list' and \
                len(d.args) == 1 and rsym_pred(d.args[0])
            want = 'list(r)'
        elif r_none is False and r_tuple is False:
            good = isinstance(d, ast.List) and len(d.elts) == 1 and \
                rsym_pred(d.elts[0])
            want = '[r]'
        else:
            good = False
            want = 'a payload decided by `r is None` / isinstance(r, tuple)'
        ctx.check(good, construct, 'ACK payload %s for r %s' % (
            want, 'None' if r_none else 'tuple' if r_tuple else 'other'),
            key='ack-packing', reason='ACK payload is %s where %s is '
            'required (r is None: %s, tuple: %s)' % (dt, want, r_none,
                                                     r_tuple),
            where=where_of(w, e), rid=rid)


def where_of(w, e):
    return '%s:%d' % (w.rsplit(':', 1)[0], e.lineno)


def is_trigger_result(run):
    def pred(node):
        x = strip_await(run.expand(node))
        return isinstance(x, ast.Call) and \
            isinstance(x.func, ast.Attribute) and \
            x.func.attr == '_trigger_event'
    return pred


def server_ack(ctx, fam, rid_ack, rid_pack=None):
    """C05.R5: ACK iff handled and id present (id over None/0/positive),
    with the incoming namespace and id, to the incoming transport."""
    m = ctx.model
    S = SERVER[fam]
    f = m.method(S, '_handle_event_internal')
    construct = S + '._handle_event_internal'
    w = where(f)
    ps = f.params[1:]
    # the helper is private and called positionally (C05.R4 checks the
    # binding): its parameters are identified by position, not by name
    if len(ps) != 6:
        raise AnalysisError('%s signature changed: %s' % (construct, ps))
    srv_p, sid_p, eio_p, data_p, ns_p, id_p = ps
    for idval in (None, 0, 'pos'):
        for handled in (True, False):
            run = run_function(f, ctx.model, oracle=id_oracle(id_p, idval, handled))
            normal = [p for p in run.paths if p.normal]
            for p in normal:
                acks = [(e, pk, tgt) for e, pk, tgt in sends(run, p)
                        if pk]
                want = handled and idval is not None
                row = 'id=%s handled=%s' % (idval, handled)
                ctx.check((len(acks) == 1) == want and len(acks) <= 1,
                          construct, '[%s] %s' % (
                              row, 'one ACK' if want else 'no ACK'),
                          key='ack-iff ' + row, reason='row {%s}: %d '
                          'packet(s) sent, expected %d' % (
                              row, len(acks), 1 if want else 0), where=w,
                          witness=row, rid=rid_ack)
                for e, pk, tgt in acks:
                    good = pk['type'] == 'ACK' and \
                        txt(pk.get('namespace')) == ns_p and \
                        txt(pk.get('id')) == id_p and U(tgt) == eio_p \
                        and U(e.expr.func.value) in (srv_p, 'self')
                    ctx.check(good, construct, '[%s] ACK(namespace, id of '
                              'the event) sent to the sender\'s transport'
                              % row, key='ack-shape', reason='answer is %s '
                              'namespace=%s id=%s to %s' % (
                                  pk['type'], txt(pk.get('namespace')),
                                  txt(pk.get('id')), U(tgt)),
                              where=where(f, e.node), rid=rid_ack)
                    trig = p.calls('_trigger_event')
                    ctx.check(len(trig) == 1 and trig[0].idx < e.idx,
                              construct, '[%s] ACK follows the single '
                              'handler invocation' % row, key='ack-after',
                              where=where(f, e.node), rid=rid_ack)
                if rid_pack:
                    ack_packing(ctx, run, p, construct, w,
                                is_trigger_result(run), rid=rid_pack)


def client_ack(ctx, fam, rid_ack, rid_pack=None):
    """C09.R2: exactly one ACK iff id present, after the handler."""
    m = ctx.model
    C = CLIENT[fam]
    f = m.method(C, '_handle_event')
    construct = C + '._handle_event'
    w = where(f)
    if len(f.params[1:]) != 3:
        raise AnalysisError(construct + ' signature changed')
    ns_p, id_p, data_p = f.params[1:]
    for idval in (None, 0, 'pos'):
        run = run_function(f, ctx.model, oracle=id_oracle(id_p, idval, True))
        for p in run.paths:
            if not p.normal:
                continue
            acks = [(e, pk) for e, pk, _ in sends(run, p, '_send_packet')
                    if pk]
            want = idval is not None
            row = 'id=%s' % (idval,)
            ctx.check((len(acks) == 1) == want and len(acks) <= 1, construct,
                      '[%s] %s' % (row, 'one ACK' if want else 'no ACK'),
                      key='ack-iff ' + row, reason='row {%s}: %d packet(s) '
                      'sent, expected %d' % (row, len(acks),
                                             1 if want else 0), where=w,
                      witness=row, rid=rid_ack)
            trig = p.calls('_trigger_event')
            ctx.check(len(trig) == 1, construct, '[%s] the handler '
                      'dispatcher is invoked exactly once' % row,
                      key='one-dispatch', where=w, rid=rid_ack)
            for e, pk in acks:
                good = pk['type'] == 'ACK' and \
                    U(pk.get('namespace')) == "%s or '/'" % ns_p and \
                    txt(pk.get('id')) == id_p
                ctx.check(good, construct, '[%s] ACK bears the event\'s '
                          'namespace and id' % row, key='ack-shape',
                          reason='answer is %s namespace=%s id=%s' % (
                              pk['type'], txt(pk.get('namespace')),
                              txt(pk.get('id'))), where=where(f, e.node),
                          rid=rid_ack)
                ctx.check(bool(trig) and trig[0].idx < e.idx, construct,
                          '[%s] ACK after the handler returned' % row,
                          key='ack-after', where=where(f, e.node),
                          rid=rid_ack)
            if rid_pack:
                ack_packing(ctx, run, p, construct, w,
                            is_trigger_result(run), rid=rid_pack)


def callback_typestate(ctx, cname, fname, keys, rid):
    """C06.R1 / C09.R3: on the path that invokes the callback exactly the
    looked-up entry was deleted before; the lookup-failure path invokes
    nothing and writes nothing."""
    m = ctx.model
    f = m.method(cname, fname)
    construct = '%s.%s' % (cname, fname)
    w = where(f)
    # the application's callback may raise anything: "at most once" has to
    # hold on the exceptional continuations too
    def cb_raiser(e):
        if e.kind == 'call' and isinstance(e.node, ast.Call) and \
                isinstance(e.node.func, ast.Name) and \
                e.node.func.id not in ('len', 'isinstance', 'list', 'tuple',
                                       'print', 'getattr'):
            return '*'
        return None
    run = run_function(f, m, declared_raises=True, raiser=cb_raiser)
    # the table keys are the first two parameters (positionally: the
    # callers are checked for the binding); literal spellings name the
    # default parameter names and are mapped onto the actual ones
    ps = f.params[1:]
    k1, k2 = keys
    if len(ps) >= 2:
        k1 = k1.replace('namespace', ps[0]) if 'namespace' in k1 else (
            ps[0] if k1 == 'sid' else k1)
        k2 = ps[1] if k2 == 'id' else k2
    entry = 'self.callbacks[%s][%s]' % (k1, k2)
    n_invoke = n_fail = 0

    def pop_form(fx):
        """remove-and-get of exactly the entry, in one step:
        callbacks[k1].pop(k2[, d]) or callbacks.get(k1, {}).pop(k2, d)
        (setdefault in place of get is the same read but WRITES the table of
        an unknown client).  -> (form, has_default) or None"""
        if not (isinstance(fx, ast.Call) and
                isinstance(fx.func, ast.Attribute) and
                fx.func.attr == 'pop' and fx.args and U(fx.args[0]) == k2):
            return None
        base = fx.func.value
        if U(base) == 'self.callbacks[%s]' % k1:
            return 'sub', len(fx.args) > 1
        if isinstance(base, ast.Call) and \
                isinstance(base.func, ast.Attribute) and \
                U(base.func.value) == 'self.callbacks' and \
                base.func.attr in ('get', 'setdefault') and base.args and \
                U(base.args[0]) == k1:
            return base.func.attr, len(fx.args) > 1
        return None
    fail_kinds = set()
    sub_pop = None
    for p in run.paths:
        inv = []
        for e in p.events:
            if e.kind != 'call':
                continue
            fx = run.expand(e.expr.func)
            if isinstance(fx, ast.Subscript) and \
                    'self.callbacks' in U(fx):
                inv.append((e, U(fx)))
            elif pop_form(fx):
                # remove-and-get in one step: the entry is gone before the
                # callback runs
                inv.append((e, entry))
                if pop_form(fx)[0] == 'sub':
                    sub_pop = e
        failed = any(e.kind == 'lookup-fails' for e in p.events)
        if failed:
            fail_kinds.add('lookup')
        # remove-and-get with a default: the unknown id is the path on
        # which the result `is None` (or is falsy)
        for c in p.conds:
            a = run.expand(c.atom)
            if isinstance(a, ast.Compare) and len(a.ops) == 1 and \
                    isinstance(a.ops[0], ast.Is) and \
                    is_const(a.comparators[0], None) and \
                    pop_form(a.left) and c.pol:
                failed = True
            elif pop_form(a) and not c.pol:
                failed = True
        # the same decision written as a membership test: the path on which
        # `k2 in callbacks[k1]` (or `k1 in callbacks`) is false
        for c in p.conds:
            a = run.expand(c.atom)
            if not c.pol and isinstance(a, ast.Compare) and \
                    isinstance(a.ops[0], ast.In) and (
                        (U(a.left) == k2 and U(a.comparators[0]) ==
                         'self.callbacks[%s]' % k1) or
                        (U(a.left) == k1 and U(a.comparators[0]) ==
                         'self.callbacks')):
                failed = True
                fail_kinds.add('member')
        if failed:
            n_fail += 1
            muts = [e for e in p.events if e.kind in ('store', 'del')
                    and 'self.' in U(run.expand(e.expr))]
            # a setdefault() on the table is a write as well: it leaves an
            # (empty) table of a client that has none
            muts += [e for e in p.events if e.kind == 'call' and
                     e.callee() == 'setdefault' and
                     'self.callbacks' in U(run.expand(e.expr))]
            ctx.check(not inv and not muts and p.normal, construct,
                      'unknown id: nothing invoked, nothing written, no '
                      'error', key='unknown-id', reason='on lookup failure: '
                      'invoked %s, mutations %s, exit %s' % (
                          [x for _, x in inv], [U(e.expr) for e in muts],
                          p.exit), where=w, rid=rid)
            continue
        if len(inv) > 1:
            ctx.check(False, construct, 'one ACK invokes the callback at '
                      'most once', key='invoke-once', reason='the callback '
                      'is invoked %d times on the path where the first '
                      'invocation raised (%s): an exception inside the '
                      'callback cannot be told from a signature mismatch'
                      % (len(inv), ', '.join(U(e.expr)[:40] for e, _ in inv)),
                      where=where(f, inv[1][0].node), rid=rid)
        for e, what in inv:
            n_invoke += 1
            ctx.check(what == entry, construct, 'the invoked value is the '
                      'entry %s' % entry, key='entry', reason='invokes %s'
                      % what, where=where(f, e.node), rid=rid)
            dels = [d for d in p.events if d.idx < e.idx and (
                (d.kind == 'del' and U(run.expand(d.expr)) == entry) or
                (d.kind == 'call' and d.callee() == 'pop' and
                 pop_form(run.expand(d.expr))))]
            if not any(d.kind == 'lookup-fails' for d in p.events):
                pass
            whole = [d for d in p.events if d.kind == 'del' and
                     U(run.expand(d.expr)) == 'self.callbacks[%s]' % k1]
            ctx.check(bool(dels) and not whole, construct, 'exactly the '
                      'looked-up entry is deleted before the callback is '
                      'invoked', key='delete-before-invoke',
                      reason='the callback is invoked %s' % (
                          'after deleting the whole table of the client'
                          if whole else 'without its entry having been '
                          'deleted first (a second ACK would invoke it '
                          'again)'), where=where(f, e.node), rid=rid)
            a = e.expr.args
            ctx.check(len(a) == 1 and isinstance(a[0], ast.Starred) and
                      U(a[0].value) == f.params[-1], construct,
                      'callback receives *data', key='cb-args',
                      reason='callback invoked as %s' % U(e.expr)[:60],
                      where=where(f, e.node), rid=rid)
    if sub_pop is not None and not fail_kinds:
        # callbacks[k1].pop(k2, default) answers an unknown id, but an
        # unknown CLIENT is decided by `callbacks[k1]` itself
        ctx.bad(construct, 'unknown-client', 'the entry is taken with '
                'self.callbacks[%s].pop(%s, ...) and nothing tests or '
                'catches a missing table of the client: an acknowledgement '
                'for a client without outstanding callbacks raises KeyError '
                '(plain dict) or leaves a fresh empty table behind '
                '(defaultdict) instead of being ignored' % (k1, k2),
                where(f, sub_pop.node), rid=rid)
    if not n_invoke or not n_fail:
        ctx.bad(construct, 'paths', 'no %s path found' % (
            'invoking' if not n_invoke else 'lookup-failure'), w, rid=rid)


def table_provenance(ctx, cname, rid):
    """C06.R2 / C09.R4: every value stored in callbacks[.][.] is a callback
    parameter, or sits under a key no wire value can equal (a module-level
    `object()` sentinel)."""
    m = ctx.model
    c = m.cls(cname)
    n = 0
    seen = set()
    for f in m.funcs:
        if f.cls is None or (c not in m.mro(f.cls) and f.cls is not c):
            continue
        if 'callbacks' not in ast.unparse(f.node):
            continue
        run = run_function(f, m, max_iter=1)
        construct = '%s.%s' % (f.cls.name, f.name)
        for p in run.paths:
            for e in p.events:
                if e.kind != 'store':
                    continue
                t = run.expand(e.expr)
                tt = U(t)
                if not tt.startswith('self.callbacks['):
                    continue
                key = (e.lineno, tt)
                if key in seen:
                    continue
                seen.add(key)
                depth = 0
                x = t
                while isinstance(x, ast.Subscript):
                    depth += 1
                    x = x.value
                v = e.extra
                if depth == 2:
                    n += 1
                    ctx.check(isinstance(v, ast.Name) and v.id in f.params,
                              construct, 'value stored in callbacks[.][.] '
                              'is the parameter %s' % U(v),
                              key='stored-value', reason='non-parameter '
                              'value %s stored among the callbacks' % U(v),
                              where=where(f, e.node), rid=rid)
                elif depth == 1:
                    d = run.expand(v)
                    if not isinstance(d, ast.Dict):
                        n += 1
                        ctx.bad(construct, 'init', 'per-client callback '
                                'table initialised with %s' % U(d),
                                where(f, e.node), rid=rid)
                        continue
                    for k, val in zip(d.keys, d.values):
                        n += 1
                        sentinel = isinstance(k, ast.Name) and isinstance(
                            f.module.globals.get(k.id), ast.Call) and \
                            U(f.module.globals[k.id]) == 'object()'
                        ctx.check(sentinel, construct, 'the non-callback '
                                  'value %s sits under the private sentinel '
                                  'key %s' % (U(val), U(k)),
                                  key='non-callback value under '
                                  'wire-representable key',
                                  reason='the non-callback value %s is '
                                  'stored in the callback table under key '
                                  '%s, which an acknowledgement id decoded '
                                  'from the wire can equal' % (U(val), U(k)),
                                  where=where(f, e.node), rid=rid)
    if not n:
        ctx.bad(cname, 'no-stores', 'no store into callbacks found', None,
                rid=rid)


def counter_discipline(ctx, cname, keyparam, rid):
    """C06.R5: counter created only when the client has no entry, id is
    next(counter), callback stored under that id before it is returned."""
    m = ctx.model
    f = m.method(cname, '_generate_ack_id')
    construct = cname + '._generate_ack_id'
    w = where(f)
    run = run_function(f, m)
    cb = f.params[2]
    saw_create = saw_reuse = 0
    for p in run.paths:
        if not p.normal:
            continue
        def tgt(e):
            return U(run.expand(e.expr))
        creates = [e for e in p.events if e.kind == 'store' and
                   tgt(e).count('[') == 1 and
                   tgt(e).startswith('self.callbacks[')]
        for e in creates:
            saw_create += 1
            key = run.expand(e.expr).slice

            def absent(c):
                a = run.expand(c.atom)
                return isinstance(a, ast.Compare) and \
                    isinstance(a.ops[0], ast.In) and same(a.left, key) and \
                    U(a.comparators[0]) == 'self.callbacks'
            dom = [c for c in p.conds if c.at <= e.idx and not c.pol and
                   absent(c)]
            ctx.check(bool(dom), construct, 'the counter is created only '
                      'when the client has no entry yet', key='recreate',
                      reason='the per-client table (and its id counter) is '
                      're-created while an entry may exist: ids would be '
                      'issued twice', where=where(f, e.node), rid=rid)
        if not creates:
            saw_reuse += 1
        rv = run.expand(p.value) if p.value is not None else None
        okid = isinstance(rv, ast.Call) and U(rv.func) == 'next' and \
            U(rv.args[0]).startswith('self.callbacks[')
        ctx.check(p.exit == 'return' and okid, construct, 'the id is '
                  'next(<the client\'s counter>)', key='id-source',
                  reason='returns %s' % txt(rv), where=w, rid=rid)
        st = [e for e in p.events if e.kind == 'store' and
              tgt(e).startswith('self.callbacks[') and
              isinstance(run.expand(e.expr), ast.Subscript) and
              isinstance(run.expand(e.expr).value, ast.Subscript) and
              U(e.extra) == cb and p.value is not None and
              U(run.expand(e.expr.slice)) == U(run.expand(p.value))]
        ctx.check(bool(st), construct, 'the callback is stored under the '
                  'returned id', key='store-under-id',
                  reason='the callback is not stored under the id that is '
                  'returned', where=w, rid=rid)
    if not saw_create or not saw_reuse:
        ctx.bad(construct, 'paths', 'missing create/reuse path', w, rid=rid)



def wiring(ctx, base, rid):
    """the three engine.io events are bound to the three handlers in the
    constructor: eio.on('connect'|'message'|'disconnect', self._handle_eio_*)
    - without it nothing the transport delivers reaches the dispatch."""
    m = ctx.model
    f = m.method(base, '__init__')
    construct = base + '.__init__'
    want = {'connect': 'self._handle_eio_connect',
            'message': 'self._handle_eio_message',
            'disconnect': 'self._handle_eio_disconnect'}
    got = {}
    ctor = None
    from ..sym import with_new_helpers
    for g in with_new_helpers(m, f):
      for n in walk_own(g.node):
        if isinstance(n, ast.Assign) and U(n.targets[0]) == 'self.eio':
            ctor = n
        if isinstance(n, ast.Call) and U(n.func) == 'self.eio.on' and \
                len(n.args) == 2 and isinstance(n.args[0], ast.Constant):
            got[n.args[0].value] = U(n.args[1])
    for ev, h in want.items():
        ctx.check(got.get(ev) == h, construct, "engine.io '%s' is bound to "
                  '%s' % (ev, h), key='wiring ' + ev, reason="engine.io "
                  "event '%s' is bound to %s: what the transport delivers "
                  'never reaches %s' % (ev, got.get(ev), h), where=where(f),
                  rid=rid)
    if ctor is None:
        raise AnalysisError(construct + ': self.eio is not created')


def send_frames(ctx, cname, rid):
    """_send_packet hands every frame of the encoded packet to the transport
    in order: the single frame, or each element of the list (header first,
    then the attachments)."""
    m = ctx.model
    f = m.method(cname, '_send_packet')
    construct = cname + '._send_packet'
    pk = f.params[-1]
    run = run_function(f, m, max_iter=1)
    n_list = n_single = 0
    list_sent = []
    for p in run.paths:
        if not p.normal:
            continue
        enc = [e for e in p.calls('encode') if e.recv() == pk]
        sends_ = [e for e in p.calls('send') if e.recv() == 'self.eio']
        listp = None
        for c in p.conds:
            a = run.expand(c.atom)
            if isinstance(a, ast.Call) and U(a.func) == 'isinstance' and \
                    'list' in U(a.args[1]):
                listp = c.pol
        if listp is None or len(enc) != 1:
            ctx.bad(construct, 'shape', 'cannot find encode() / the list '
                    'test', where(f), rid=rid)
            continue
        if listp:
            iters = [e for e in p.events if e.kind == 'iter']
            if not iters and not sends_:
                # no loop at all on the list path
                list_sent.append(False)
                continue
            if iters and not sends_:
                # the zero-iteration path of the frame loop (empty list)
                continue
            n_list += 1
            lv = [run.sym_of(e.expr.args[-1]) for e in sends_]
            ok = all(
                d is not None and d['kind'] == 'loopvar' and
                U(strip_await(run.expand(d['expr']))) == U(enc[0].expr)
                for d in lv)
            list_sent.append(ok)
            ctx.check(ok, construct, 'every frame of a multi-frame packet is '
                      'sent, in list order', key='frames-list',
                      reason='the frames of a binary packet are sent as %s'
                      % [U(e.expr)[:40] for e in sends_],
                      where=where(f), rid=rid)
        else:
            iters = [e for e in p.events if e.kind == 'iter']
            if iters and not sends_:
                continue         # zero-iteration path of a frame loop
            n_single += 1

            def one(arg):
                if U(strip_await(run.expand(arg))) == U(enc[0].expr):
                    return True
                d = run.sym_of(arg)
                return d is not None and d['kind'] == 'loopvar' and \
                    U(strip_await(run.expand(d['expr']))) == \
                    '[%s]' % U(enc[0].expr)
            ok = bool(sends_) and all(one(x.expr.args[-1]) for x in sends_) \
                and (len(sends_) == 1 or bool(iters))
            ctx.check(ok, construct, 'the single frame is sent once',
                      key='frames-single', where=where(f), rid=rid)
    if not any(list_sent):
        ctx.bad(construct, 'frames-list-unsent', 'the frames of a multi-frame '
                '(binary) packet are never handed to the transport',
                where(f), rid=rid)
    if not n_single:
        ctx.bad(construct, 'paths', 'single frame branch missing',
                where(f), rid=rid)
    for x in walk_own(f.node):
        if isinstance(x, (ast.For, ast.AsyncFor)) and any(
                isinstance(y, (ast.Break, ast.Return, ast.Continue))
                for y in ast.walk(x)):
            ctx.bad(construct, 'frames-early-exit', 'the frame loop can stop '
                    'early', where(f, x), rid=rid)


def call_forwarding(ctx, cname, server, rid):
    """call() issues exactly one emit with its own event, data, addressee
    and namespace and a fresh callback."""
    m = ctx.model
    f = m.method(cname, 'call')
    em = m.method(cname, 'emit')
    construct = cname + '.call'
    run = run_function(f, m)
    n = 0
    for p in run.paths:
        es = [e for e in p.calls('emit') if e.recv() == 'self']
        if not es:
            continue
        n += 1
        if len(es) != 1:
            ctx.bad(construct, 'emit-count', 'call() emits %d times'
                    % len(es), where(f), rid=rid)
            continue
        b = bind_call(es[0].expr, em)
        want = {'event': 'event', 'data': 'data', 'namespace': 'namespace'}
        if server:
            want['room'] = 'to or sid'
            want['ignore_queue'] = 'ignore_queue'
        got = {k: txt(b.get(k)) for k in want}
        cb = b.get('callback')
        ctx.check(got == want and cb is not None and not b.errors,
                  construct, 'call() emits (%s) with a callback' % ', '.join(
                      '%s=%s' % kv for kv in want.items()), key='call-emit',
                  reason='call() emits with %s, callback=%s' % (
                      {k: v for k, v in got.items() if want[k] != v},
                      txt(cb)), where=where(f, es[0].node), rid=rid)
    if not n:
        ctx.bad(construct, 'no-emit', 'call() never emits', where(f), rid=rid)
