"""C14 - the asyncio classes behave exactly like their threaded
counterparts: decided as *twin agreement* of the two texts modulo the
regular sync<->asyncio translation (sa/twin.py), not as a differential run.

R1 method sets and signatures agree (names, order, defaults).
R2 each twin body has the same normal form; the remaining irregular
   differences are a frozen accepted-drift table, one statement wide, keyed
   by the normalised text of both sides; anything else is TWIN-DRIFT.
R3 await discipline (needed because the normal form erases `await`): in the
   asyncio classes every call that resolves to a coroutine function of the
   package, or to an external coroutine method of the stub table, is
   awaited, scheduled (create_task / wait_for / gather /
   start_background_task), or returned to a caller that awaits it.
"""
import ast

from ..model import AnalysisError, FuncInfo
from ..sym import U
from ..util import where, walk_own
from .. import twin

PAIRS = [('Server', 'AsyncServer'), ('Client', 'AsyncClient'),
         ('Manager', 'AsyncManager'),
         ('PubSubManager', 'AsyncPubSubManager'),
         ('Namespace', 'AsyncNamespace'),
         ('ClientNamespace', 'AsyncClientNamespace'),
         ('SimpleClient', 'AsyncSimpleClient')]
THOROUGH_PAIRS = [('RedisManager', 'AsyncRedisManager'),
                  ('InstrumentedServer', 'InstrumentedAsyncServer')]

# methods that exist on one side only, with the reason
ONE_SIDED = {
    ('Server', 'AsyncServer'): {
        '__init__': 'async: selects AsyncManager as default manager',
        'attach': 'async: ASGI/aiohttp attachment helper',
        'is_asyncio_based': 'marker overridden on the asyncio side'},
    ('Client', 'AsyncClient'): {'is_asyncio_based': 'marker'},
    ('Manager', 'AsyncManager'): {
        'connect': 'async wrapper around BaseManager.connect'},
    ('Namespace', 'AsyncNamespace'): {'is_asyncio_based': 'marker'},
    ('ClientNamespace', 'AsyncClientNamespace'): {
        'is_asyncio_based': 'marker'},
    ('RedisManager', 'AsyncRedisManager'): {
        'initialize': 'sync: monkey-patch check for eventlet/gevent'},
}
RENAMED = {'__enter__': '__aenter__', '__exit__': '__aexit__'}

# signature differences that are known and outside behaviour parity
SIG_DRIFT = {
    ('Server', 'handle_request'): 'WSGI (environ, start_response) vs '
                                  'framework-specific *args',
    ('PubSubManager', 'disconnect'): 'namespace default None on the '
                                     'threaded side only; always passed',
    ('ClientNamespace', 'send'): 'vestigial room parameter (C17)',
    ('InstrumentedServer', '__init__'): 'keyword order differs; always '
                                        'called with keywords',
}

# accepted drift: (sync class, method, sync text, async text) -> reason.
# One statement wide; an entry whose two sides no longer both occur stops
# matching and the construct is reported again.
N_ = None
ACCEPTED = {
    ('Server', 'session',
     'self.session = self.server.get_session(sid, namespace=namespace)',
     'self.session = self.server.get_session(sid, namespace=self.namespace)'):
        'closure variable vs attribute set from the same argument (C16.R2 '
        'checks both resolve to the constructor arguments)',
    ('Server', 'session',
     'self.server.save_session(sid, self.session, namespace=namespace)',
     'self.server.save_session(sid, self.session, namespace=self.namespace)'):
        'same',
    ('Server', 'handle_request',
     'return self.eio.handle_request(environ, start_response)',
     'return self.eio.handle_request(*args, **kwargs)'):
        'framework-specific request signature',
    ('Manager', 'disconnect',
     'return self.basic_disconnect(sid, namespace)',
     'return self.basic_disconnect(sid, namespace, **kwargs)'):
        'basic_disconnect ignores **kwargs',
    ('PubSubManager', 'can_disconnect',
     "message = {'method': 'disconnect', 'sid': sid, 'namespace': namespace "
     "or '/', 'host_id': self.host_id}",
     "self._publish({'method': 'disconnect', 'sid': sid, 'namespace': "
     "namespace or '/', 'host_id': self.host_id})"):
        'threaded side also applies the message locally, which is a no-op '
        'because the client is not on this host (is_connected false)',
    ('PubSubManager', 'can_disconnect', 'self._handle_disconnect(message)',
     N_): 'same: local application is a no-op for a remote client',
    ('PubSubManager', 'can_disconnect', 'self._publish(message)', N_):
        'same: the publish is the first entry on the asyncio side',
    ('RedisManager', '__init__', N_,
     "if not hasattr(redis.Redis, 'from_url'):\n    raise RuntimeError("
     "'Version 2 of aioredis package is required.')"):
        'version check of the asyncio redis package',
    ('InstrumentedServer', '__init__', N_, 'self.admin_queue = []'):
        'asyncio admin queues room events (emitted by the stats task)',
    ('InstrumentedServer', 'admin_connect', N_, 'authenticated = True'):
        'redundant initialisation',
    ('InstrumentedServer', 'admin_connect', N_,
     'self.stop_stats_event = self.sio.eio.create_event()'):
        'asyncio admin starts the stats task on admin connect as well',
    ('InstrumentedServer', 'admin_connect', N_,
     'self.stats_task = self.sio.start_background_task('
     'self._emit_server_stats)'): 'same',
    ('InstrumentedServer', '_basic_enter_room',
     "self.sio.emit('room_joined', (namespace, room, sid, datetime.now("
     "timezone.utc).isoformat()), namespace=self.admin_namespace)",
     "self.admin_queue.append(('room_joined', (namespace, room, sid, "
     "datetime.now(timezone.utc).isoformat())))"):
        'sync wrapper cannot await: event queued for the stats task',
    ('InstrumentedServer', '_basic_leave_room',
     "self.sio.emit('room_left', (namespace, room, sid, datetime.now("
     "timezone.utc).isoformat()), namespace=self.admin_namespace)",
     "self.admin_queue.append(('room_left', (namespace, room, sid, "
     "datetime.now(timezone.utc).isoformat())))"): 'same',
    ('InstrumentedServer', '_eio_websocket_handler',
     "def _send(ws, data, *args, **kwargs):\n    self.event_buffer.push("
     "'packetsOut')\n    self.event_buffer.push('bytesOut', len(data))\n"
     "    return ws.__send(data, *args, **kwargs)",
     "def _send(ws, data):\n    self.event_buffer.push('packetsOut')\n"
     "    self.event_buffer.push('bytesOut', len(data))\n"
     "    return ws.__send(data)"):
        'asyncio websocket send takes no extra arguments',
    ('InstrumentedServer', '_emit_server_stats', N_,
     "while self.admin_queue:\n    event, args = self.admin_queue.pop(0)\n"
     "    self.sio.emit(event, args, namespace=self.admin_namespace)"):
        'drains the admin queue (see _basic_enter_room)',
}

# external coroutine methods (stub table): receiver text -> method names
EXTERNAL_CORO = {
    'self.eio': {'send', 'send_packet', 'disconnect', 'get_session',
                 'save_session', 'sleep', 'connect', 'wait', 'shutdown',
                 'handle_request'},
    'self.sio.eio': {'sleep'},
    'self.sio': {'emit', 'sleep', 'enter_room', 'leave_room', 'disconnect',
                 'send', 'call', 'close_room', 'save_session',
                 'get_session'},
    'asyncio': {'sleep', 'wait', 'wait_for', 'gather'},
    'self.redis': {'publish'}, 'self.pubsub': {'subscribe', 'unsubscribe'},
}
SCHEDULERS = ('create_task', 'wait_for', 'gather', 'ensure_future',
              'start_background_task', 'wait', 'partial', 'partialmethod')


import builtins


def shape(text, keep):
    """statement text with every local / parameter name replaced by a
    positional placeholder (first occurrence order): accepted-drift entries
    survive a rename of a local on either side."""
    if text is None:
        return None
    try:
        tree = ast.parse(text)
    except SyntaxError:
        return text
    order = {}

    class R(ast.NodeTransformer):
        def visit_Name(self, n):
            if n.id in keep or n.id in ('self', 'cls'):
                return n
            order.setdefault(n.id, '_%d' % (len(order) + 1))
            return ast.Name(id=order[n.id], ctx=n.ctx)

        def visit_arg(self, n):
            if n.arg not in ('self', 'cls'):
                order.setdefault(n.arg, '_%d' % (len(order) + 1))
                n.arg = order[n.arg]
            return n
    return ast.unparse(R().visit(tree))


def keep_names(*modules):
    keep = set(dir(builtins)) | {'WAIT', 'JOIN'}
    for mod in modules:
        keep |= set(mod.imports) | set(mod.globals) | set(mod.classes) | \
            set(mod.functions)
    return keep


def r1_r2_pair(ctx, a, b):
    m = ctx.model
    ca, cb = m.cls(a), m.cls(b)
    keep = keep_names(ca.module, cb.module) | {
        'asyncio', 'redis', 'Event', 'time', 'InstrumentedServer', 'Socket',
        'timezone', 'datetime'}
    accepted = {(k[0], k[1], shape(k[2], keep), shape(k[3], keep)): v
                for k, v in ACCEPTED.items() if k[0] == a}
    one = ONE_SIDED.get((a, b), {})
    # synchronous private helpers both twins inherit from a common base
    # class: a call to one may be inlined on both sides (sa/twin.py)
    shared = [k for k in m.mro(ca)[1:] if k in m.mro(cb)[1:]]
    twin.HELPERS = {}
    for k in reversed(shared):
        for hn, hf in k.methods.items():
            if hn.startswith('_') and not hn.startswith('__') and \
                    not hf.is_async and hn not in ca.methods and \
                    hn not in cb.methods:
                twin.HELPERS[hn] = hf.node
    names_a = set(ca.methods)
    names_b = {k for k in cb.methods}
    back = {v: k for k, v in RENAMED.items()}
    names_b_mapped = {back.get(k, k) for k in names_b}
    for n in sorted(names_a ^ names_b_mapped):
        side = 'threaded' if n in names_a else 'asyncio'
        ctx.check(n in one, '%s/%s.%s' % (a, b, n), 'method exists on both '
                  'sides', key='one-sided ' + n, reason='method %s exists '
                  'only on the %s side' % (n, side),
                  where=(ca if n in names_a else cb).module.relpath,
                  rid='C14.R1')
    for name, fa in ca.methods.items():
        fb = cb.methods.get(RENAMED.get(name, name)) or cb.methods.get(name)
        if fb is None:
            continue
        construct = '%s.%s / %s.%s' % (a, name, b, fb.name)
        sa, sb = twin.signature(fa.node), twin.signature(fb.node)
        if sa != sb and (a, name) in SIG_DRIFT:
            ctx.info('%s: accepted signature drift: %s' % (
                construct, SIG_DRIFT[(a, name)]))
        else:
            ctx.check(sa == sb, construct, 'same parameters, order and '
                      'defaults', key='signature', reason='signatures '
                      'differ: %s vs %s' % (sa, sb), where=where(fb),
                      rid='C14.R1')
        ctx.check(fb.is_async or not _needs_async(fa, fb), construct,
                  'asyncness', key='asyncness', where=where(fb),
                  rid='C14.R1')
        diffs = twin.diff_functions(fa.node, fb.node)
        if not diffs:
            ctx.ok(construct, 'bodies have the same normal form',
                   where(fa), rid='C14.R2')
            continue
        for c, x, y in diffs:
            key = (a, name, shape(x, keep), shape(y, keep))
            if key in accepted:
                ctx.ok(construct, 'accepted drift: ' + accepted[key],
                       where(fa), rid='C14.R2')
                continue
            ctx.bad(construct, 'TWIN-DRIFT %s' % (x or y)[:60],
                    'TWIN-DRIFT in %s: threaded `%s` vs asyncio `%s` '
                    '(after normalisation); a change made on one side only, '
                    'or on both differently' % (c or 'body', x, y),
                    '%s | %s' % (where(fa), where(fb)), rid='C14.R2')


def _needs_async(fa, fb):
    return False


def r3_await_discipline(ctx, cname):
    m = ctx.model
    c = m.cls(cname)
    n_calls = 0
    for f in m.funcs:
        owner = f
        while owner.cls is None and owner.parent is not None:
            owner = owner.parent
        if owner.cls is not c:
            continue
        # parents of every node
        parent = {}
        for node in ast.walk(f.node):
            for ch in ast.iter_child_nodes(node):
                parent[ch] = node
        for node in walk_own(f.node):
            if not isinstance(node, ast.Call):
                continue
            is_coro = False
            kind, tg = m.resolve_call(f, node)
            if kind == 'internal' and tg and all(t.is_async for t in tg):
                is_coro = True
            if isinstance(node.func, ast.Attribute):
                r = U(node.func.value)
                if node.func.attr in EXTERNAL_CORO.get(r, ()):
                    is_coro = True
                if r == 'asyncio' and node.func.attr in ('create_task',
                                                         'ensure_future'):
                    is_coro = False
            if not is_coro:
                continue
            n_calls += 1
            p = parent.get(node)
            ok = False
            if isinstance(p, ast.Await):
                ok = True
            elif isinstance(p, ast.Call) and node in p.args and \
                    (U(p.func).split('.')[-1] in SCHEDULERS):
                ok = True
            elif isinstance(p, ast.Return) and not f.is_async:
                ok = True      # handed to the caller, who awaits it
            elif isinstance(p, (ast.AsyncFor,)):
                ok = True
            elif isinstance(p, ast.withitem):
                ok = True
            elif isinstance(p, ast.Call) and node in p.args and \
                    U(p.func) == 'tasks.append':
                ok = True
            elif isinstance(p, ast.comprehension) and p.is_async:
                ok = True
            ctx.check(ok, '%s.%s' % (cname, f.qual.split('.', 1)[-1]
                                     if '.' in f.qual else f.name),
                      'coroutine call %s is awaited or scheduled'
                      % U(node.func), key='not-awaited ' + U(node.func),
                      reason='%s is a coroutine function but its result is '
                      'neither awaited nor scheduled: the action silently '
                      'never happens' % U(node.func), where=where(f, node),
                      rid='C14.R3')
    return n_calls


def run(ctx):
    ctx.rule('C14.R1', 'method sets and signatures of the twins agree',
             floor=180)
    ctx.rule('C14.R2', 'twin bodies have the same normal form (modulo the '
             'accepted-drift table)', floor=95)
    pairs = list(PAIRS)
    if ctx.tier == 'thorough':
        pairs += THOROUGH_PAIRS
    for a, b in pairs:
        r1_r2_pair(ctx, a, b)
    ctx.rule('C14.R3', 'await discipline in the asyncio classes', floor=100)
    n = 0
    classes = [b for _, b in PAIRS] + ['InstrumentedAsyncServer',
                                       'AsyncRedisManager']
    for cname in classes:
        n += r3_await_discipline(ctx, cname)
    ctx.extra['coroutine_calls_examined'] = n
    ctx.extra['pairs'] = ['%s/%s' % p for p in pairs]
    ctx.extra['accepted_drift_entries'] = len(ACCEPTED)
    ctx.assume('the asyncio primitives of the idiom table (wait_for, Event, '
               'create_task + wait, awaiting a task) behave like their '
               'threaded counterparts')
    ctx.assume('a one-sided behaviour-preserving refactoring that the '
               'normal form does not absorb is reported although parity '
               'still holds (stated residual risk)')
