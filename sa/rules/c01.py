"""C01 - packet codec: structure only.  The round trip over the unbounded
packet grammar (value equality through JSON, digit adjacency of count / id /
leading number) is NOT decided, nor is interoperability with an independent
codec.

R1 binary gate decision table of Packet.__init__ over uses_binary_events x
   binary {None, truthy, falsy} x detected x type {EVENT, ACK, other}.
R2 walker agreement: _data_is_binary, _deconstruct_binary_internal and
   _reconstruct_binary_internal recurse into the same container kinds
   (list, dict values; keys kept) and treat bytes as the binary leaf.
R3 placeholder schema: keys written by the deconstructor == keys read by
   the reconstructor; 'num' is len(attachments) - 1 after the append of that
   leaf; the reconstructor indexes the attachment list with it.
R4 encoder layout decision table over binary x namespace {None, '/', other}
   x id {None, set} x data {None, set}: type, count '-', namespace ',', id,
   compact JSON, in this order; attachments follow the text frame.
R5 hand-back protocol of add_attachment.
R6 the scanner extracts the fields in the order the encoder emits them and
   looks for the separators the encoder appends.
"""
import ast
import itertools

from ..model import AnalysisError
from ..sym import U, is_const, Run, run_function
from ..util import where, walk_own, strip_await
from .common import txt
from . import c12


def r1_gate(ctx):
    m = ctx.model
    f = m.own_method('Packet', '__init__')
    construct = 'Packet.__init__'
    w = where(f)
    rows = 0
    for uses, binary, detected, ptype in itertools.product(
            (True, False), (None, True, False), (True, False),
            ('EVENT', 'ACK', 'CONNECT')):
        problems = []

        def oracle(atom, run, st):
            t = U(run.expand(atom))
            if t == 'self.uses_binary_events':
                return uses
            if t == 'binary':
                return bool(binary)
            if t == 'binary is None':
                return binary is None
            if t == 'self._data_is_binary(self.data)':
                return detected
            if t.startswith('self.packet_type == '):
                return t.split(' == ')[1] == ptype
            if t == 'encoded_packet':
                return False
            problems.append(t)
            return None
        run = run_function(f, ctx.model, oracle=oracle)
        if problems or len(run.paths) != 1:
            raise AnalysisError('%s: test outside the gate abstraction: %s'
                                % (construct, problems[:3]))
        rows += 1
        p = run.paths[0]
        B = uses and (bool(binary) or (binary is None and detected))
        stores = [U(e.extra) for e in p.events if e.kind == 'store' and
                  U(e.expr) == 'self.packet_type']
        final = stores[-1] if stores else None
        if B and ptype == 'EVENT':
            want, ok = 'BINARY_EVENT', p.normal and final == 'BINARY_EVENT'
        elif B and ptype == 'ACK':
            want, ok = 'BINARY_ACK', p.normal and final == 'BINARY_ACK'
        elif B:
            want, ok = 'ValueError', p.exit == 'raise' and \
                'ValueError' in U(p.value)
        else:
            want, ok = 'unchanged', p.normal and final == f.params[1]
        row = 'uses_binary_events=%s binary=%s detected=%s type=%s' % (
            uses, binary, detected, ptype)
        ctx.check(ok, construct, '[%s] -> %s' % (row, want),
                  key='gate ' + want, reason='row {%s}: expected %s, code '
                  'gives type %s, exit %s' % (row, want, final, p.exit),
                  where=w, witness=row)
    ctx.extra['gate_rows'] = rows


WALKERS = ['_data_is_binary', '_deconstruct_binary_internal',
           '_reconstruct_binary_internal']


def isinstance_kinds(f):
    p = f.params[1]
    out = []
    for n in walk_own(f.node):
        if isinstance(n, ast.Call) and U(n.func) == 'isinstance' and \
                len(n.args) == 2 and U(n.args[0]) == p:
            ty = n.args[1]
            out += [U(x) for x in (ty.elts if isinstance(ty, ast.Tuple)
                                   else [ty])]
        # the same test written as a class pattern: match p: case T(): ...
        if isinstance(n, ast.Match) and U(n.subject) == p:
            for c in n.cases:
                for q in ast.walk(c.pattern):
                    if isinstance(q, ast.MatchClass) and not q.patterns \
                            and not q.kwd_patterns:
                        out.append(U(q.cls))
    return list(dict.fromkeys(out))


def r2_walkers(ctx):
    m = ctx.model
    kinds = {}
    for name in WALKERS:
        f = m.own_method('Packet', name)
        kinds[name] = sorted(isinstance_kinds(f))
    det, dec, rec = [kinds[n] for n in WALKERS]
    ctx.check(det == dec, 'Packet._data_is_binary / '
              '_deconstruct_binary_internal', 'detector and deconstructor '
              'distinguish the same kinds %s' % det, key='kinds-det-dec',
              reason='binary detection handles %s but placeholder '
              'extraction handles %s: a byte string inside the other kind '
              'is detected but not extracted (or vice versa)' % (det, dec),
              where='src/socketio/packet.py')
    ctx.check(sorted(set(dec) - {'bytes'}) == rec,
              'Packet._reconstruct_binary_internal', 'reconstructor '
              'descends into the same containers %s' % rec, key='kinds-rec',
              reason='extraction descends into %s, reconstruction into %s'
              % (sorted(set(dec) - {'bytes'}), rec),
              where='src/socketio/packet.py')
    ctx.check('bytes' in det and 'bytes' in dec and 'bytearray' not in det,
              'Packet', 'bytes is the binary leaf kind', key='leaf',
              where='src/socketio/packet.py')
    for name in WALKERS:
        f = m.own_method('Packet', name)
        p = f.params[1]
        # dict arm: recursion over values, keys kept
        rec_calls = [n for n in walk_own(f.node) if isinstance(n, ast.Call)
                     and U(n.func) == 'self.' + name]
        comps = [n for n in walk_own(f.node)
                 if isinstance(n, (ast.ListComp, ast.DictComp))]
        srcs = sorted(U(c.generators[0].iter) for c in comps)
        if name == '_data_is_binary':
            want = sorted([p, p + '.values()'])
        else:
            want = sorted([p, p + '.items()'])
        ctx.check(srcs == want and len(rec_calls) >= 2, 'Packet.' + name,
                  'recurses over list items and dict values', key='recurse '
                  + name, reason='%s iterates %s' % (name, srcs),
                  where=where(f))
        for c in comps:
            if isinstance(c, ast.ListComp) and \
                    U(c.generators[0].iter) == p:
                g = c.generators[0]
                ctx.check(not g.ifs and isinstance(c.elt, ast.Call) and
                          U(c.elt.func) == 'self.' + name and
                          c.elt.args and U(c.elt.args[0]) == U(g.target),
                          'Packet.' + name, 'recursion applies to every '
                          'item of a list, whatever its kind',
                          key='items ' + name, reason='the list arm of %s '
                          'maps items as `%s`%s: byte strings / placeholders '
                          'below an item that is not recursed into (a list '
                          'inside a list) are missed' % (
                              name, U(c.elt)[:70],
                              ' if ' + U(g.ifs[0]) if g.ifs else ''),
                          where=where(f, c))
            if isinstance(c, ast.DictComp):
                tgt = c.generators[0].target
                ctx.check(isinstance(tgt, ast.Tuple) and
                          U(c.key) == U(tgt.elts[0]), 'Packet.' + name,
                          'dict keys are kept', key='keys ' + name,
                          where=where(f, c))
                inner = c.value
                ctx.check(isinstance(inner, ast.Call) and
                          U(inner.func) == 'self.' + name and
                          U(inner.args[0]) == U(tgt.elts[1]),
                          'Packet.' + name, 'recursion applies to the '
                          'value', key='values ' + name, where=where(f, c))
    # detector returns True for bytes, False for scalars
    f = m.own_method('Packet', '_data_is_binary')
    run = run_function(f, m)
    for p_ in run.paths:
        for c in p_.conds:
            if U(c.atom) == 'isinstance(%s, bytes)' % f.params[1] and c.pol:
                ctx.check(is_const(p_.value, True), 'Packet._data_is_binary',
                          'bytes -> True', key='det-bytes', where=where(f))
        if all(not c.pol for c in p_.conds) and len(p_.conds) >= 3:
            ctx.check(is_const(p_.value, False), 'Packet._data_is_binary',
                      'other scalars -> False', key='det-other',
                      where=where(f))


def r2b_non_destructive(ctx, rid=None):
    """the walkers build new containers: none of them stores into, deletes
    from or calls a mutating method on the payload it was given (encoding a
    packet must not alter the application's object, or a second send of the
    same object carries placeholders instead of bytes)."""
    m = ctx.model
    MUT = ('append', 'extend', 'insert', 'pop', 'remove', 'clear', 'update',
           'setdefault', 'popitem', 'sort', 'reverse', '__setitem__')
    for name in WALKERS + ['_deconstruct_binary', 'encode', '_to_dict']:
        f = m.own_method('Packet', name)
        pay = f.params[1] if len(f.params) > 1 else 'self.data'
        bad = None
        for n in walk_own(f.node):
            tg = []
            if isinstance(n, ast.Assign):
                tg = n.targets
            elif isinstance(n, (ast.AugAssign,)):
                tg = [n.target]
            elif isinstance(n, ast.Delete):
                tg = n.targets
            for t in tg:
                if isinstance(t, ast.Subscript) and \
                        U(t.value) in (pay, 'self.data'):
                    bad = (n, 'stores into ' + U(t))
            if isinstance(n, ast.Call) and \
                    isinstance(n.func, ast.Attribute) and \
                    n.func.attr in MUT and U(n.func.value) in (pay,
                                                               'self.data'):
                bad = (n, 'calls ' + U(n.func))
            # aliasing the payload and mutating the alias
            if isinstance(n, (ast.For, ast.AsyncFor)) and \
                    'enumerate(%s)' % pay in U(n.iter) or \
                    isinstance(n, (ast.For, ast.AsyncFor)) and \
                    U(n.iter) in ('%s.items()' % pay,
                                  'list(%s.items())' % pay,
                                  'range(len(%s))' % pay):
                for x in ast.walk(n):
                    if isinstance(x, ast.Assign) and any(
                            isinstance(t, ast.Subscript) and
                            U(t.value) == pay for t in x.targets):
                        bad = (x, 'stores into ' + U(x.targets[0]))
        ctx.check(bad is None, 'Packet.' + name, 'does not modify the '
                  'payload it walks', key='mutates-payload',
                  reason='Packet.%s %s: encoding alters the caller\'s '
                  'payload object, a second send of the same object would '
                  'carry placeholders instead of the byte strings'
                  % (name, bad[1] if bad else ''),
                  where=where(f, bad[0] if bad else None), rid=rid)
    f = m.own_method('Packet', 'encode')
    st = [n for n in walk_own(f.node) if isinstance(n, ast.Assign) and
          any(U(t) == 'self.data' for t in n.targets)]
    ctx.check(not st, 'Packet.encode', 'encode() leaves self.data alone',
              key='encode-rebinds-data', where=where(f), rid=rid)


def r3_placeholder(ctx):
    m = ctx.model
    dec = m.own_method('Packet', '_deconstruct_binary_internal')
    rec = m.own_method('Packet', '_reconstruct_binary_internal')
    run = run_function(dec, m)
    written = None
    for p in run.paths:
        if any(c.pol and U(c.atom) == 'isinstance(%s, bytes)' % dec.params[1]
               for c in p.conds):
            v = run.expand(p.value)
            app = [e for e in p.calls('append')
                   if e.recv() == dec.params[2] and
                   U(e.expr.args[0]) == dec.params[1]]
            ok = isinstance(v, ast.Dict) and bool(app)
            if ok:
                written = {k.value: U(x) for k, x in zip(v.keys, v.values)}
                ok = written.get('_placeholder') == 'True' and \
                    written.get('num') == 'len(%s) - 1' % dec.params[2]
            ctx.check(ok, 'Packet._deconstruct_binary_internal',
                      'a bytes leaf is appended, then replaced by '
                      "{'_placeholder': True, 'num': len(attachments) - 1}",
                      key='placeholder-write', reason='bytes leaf becomes %s '
                      'after %d append(s)' % (txt(v), len(app)),
                      where=where(dec))
    if written is None:
        ctx.bad('Packet._deconstruct_binary_internal', 'no-bytes-arm',
                'no bytes arm found', where(dec))
        return
    read = set()
    for n in walk_own(rec.node):
        if isinstance(n, ast.Call) and U(n.func) == rec.params[1] + '.get' \
                and isinstance(n.args[0], ast.Constant):
            read.add(n.args[0].value)
        if isinstance(n, ast.Compare) and isinstance(n.ops[0], ast.In) and \
                U(n.comparators[0]) == rec.params[1] and \
                isinstance(n.left, ast.Constant):
            read.add(n.left.value)
        if isinstance(n, ast.Subscript) and U(n.value) == rec.params[1] and \
                isinstance(n.slice, ast.Constant):
            read.add(n.slice.value)
    ctx.check(read == set(written), 'Packet._reconstruct_binary_internal',
              'reads exactly the keys the deconstructor writes %s'
              % sorted(written), key='placeholder-keys',
              reason='deconstructor writes %s, reconstructor reads %s'
              % (sorted(written), sorted(read)), where=where(rec))
    run = run_function(rec, m)
    seen = False
    for p in run.paths:
        ph = [c for c in p.conds if c.pol and "get('_placeholder')"
              in U(c.atom)]
        if ph and all(c.pol for c in p.conds
                      if "'num' in" in U(c.atom)):
            if not any("'num' in" in U(c.atom) for c in p.conds):
                continue
            seen = True
            ctx.check(U(run.expand(p.value)) == "%s[%s['num']]" % (
                rec.params[2], rec.params[1]),
                'Packet._reconstruct_binary_internal', 'a placeholder is '
                "replaced by attachments[data['num']]", key='placeholder-read',
                reason='placeholder replaced by %s' % txt(p.value),
                where=where(rec))
    if not seen:
        ctx.bad('Packet._reconstruct_binary_internal', 'no-placeholder-arm',
                'placeholder arm not found', where(rec))
    f = m.own_method('Packet', 'reconstruct_binary')
    calls = [n for n in walk_own(f.node) if isinstance(n, ast.Call) and
             U(n.func) == 'self._reconstruct_binary_internal']
    ctx.check(len(calls) == 1 and U(calls[0].args[0]) == 'self.data' and
              U(calls[0].args[1]) in ('self.attachments', f.params[1]),
              'Packet.reconstruct_binary', 'rebuilds self.data from the '
              'collected attachments', key='reconstruct', where=where(f))
    f = m.own_method('Packet', '_deconstruct_binary')
    run = run_function(f, m)
    for p in run.paths:
        v = run.expand(p.value)
        ok = isinstance(v, ast.Tuple) and len(v.elts) == 2 and \
            U(v.elts[0]).startswith('self._deconstruct_binary_internal(') \
            and U(v.elts[1]) == '[]'
        ctx.check(ok, 'Packet._deconstruct_binary', 'returns (data with '
                  'placeholders, the attachment list filled depth-first)',
                  key='deconstruct', reason='returns %s' % txt(v),
                  where=where(f))


def r5b_per_packet_state(ctx):
    """the attachment hand-back state belongs to one packet: __init__ binds
    a fresh list / a zero count on every path before decoding, the Packet
    class carries no mutable class-level default, and nothing but the append
    (and the fresh binding) writes the list."""
    m = ctx.model
    c = m.cls('Packet')
    for name, v in c.class_attrs.items():
        ctx.check(not isinstance(v, (ast.List, ast.Dict, ast.Set)) and
                  not (isinstance(v, ast.Call) and U(v.func) in (
                      'list', 'dict', 'set', 'bytearray')),
                  'Packet.' + name, 'no mutable class-level default',
                  key='class-level-mutable ' + name,
                  reason='Packet.%s is a mutable object shared by every '
                  'packet of the process: two binary packets decoded at '
                  'overlapping times mix their attachments' % name,
                  where=c.module.relpath)
    f = m.own_method('Packet', '__init__')
    run = run_function(f, m)
    for p in run.paths:
        if not p.normal:
            continue
        dec = p.calls('decode')
        for attr, kind in (('attachments', 'list'),
                           ('attachment_count', 'zero')):
            st = [e for e in p.events if e.kind == 'store' and
                  U(e.expr) == 'self.' + attr]
            fresh = [e for e in st if (
                kind == 'list' and isinstance(run.expand(e.extra), ast.List)
                and not run.expand(e.extra).elts) or (
                kind == 'zero' and is_const(e.extra, 0))]
            ok = bool(fresh) and (not dec or fresh[0].idx < dec[0].idx)
            ctx.check(ok, 'Packet.__init__', 'self.%s is bound to a fresh '
                      '%s on every path, before decoding' % (
                          attr, '[]' if kind == 'list' else '0'),
                      key='per-packet ' + attr, reason='self.%s is not '
                      '(re)initialised per packet on path %s' % (
                          attr, p.describe()[:100]), where=where(f))
    # writers of the list
    for g in c.methods.values():
        for n in walk_own(g.node):
            if isinstance(n, ast.Delete) and any(
                    'self.attachments' in U(t) for t in n.targets):
                ctx.bad('Packet.' + g.name, 'attachments-deleted',
                        'the attachment list is emptied in place (%s)'
                        % U(n)[:50], where(g, n))
            if isinstance(n, ast.Call) and \
                    isinstance(n.func, ast.Attribute) and \
                    U(n.func.value) == 'self.attachments' and \
                    n.func.attr in ('clear', 'pop', 'remove', 'insert',
                                    'extend', 'sort', 'reverse'):
                ctx.bad('Packet.' + g.name, 'attachments-mutated',
                        'the attachment list is modified other than by '
                        'append (%s)' % U(n)[:50], where(g, n))


def flatten_add(node):
    if isinstance(node, ast.BinOp) and isinstance(node.op, ast.Add):
        return flatten_add(node.left) + flatten_add(node.right)
    return [node]


def r4_layout(ctx):
    m = ctx.model
    f = m.own_method('Packet', 'encode')
    construct = 'Packet.encode'
    w = where(f)
    rows = 0
    for binary, ns, has_id, has_data in itertools.product(
            (None, 'BINARY_EVENT', 'BINARY_ACK'), (None, '/', 'other'),
            (False, True), (False, True)):
        problems = []

        def oracle(atom, run, st):
            a = run.expand(atom)
            t = U(a)
            if t.startswith('self.packet_type == '):
                return t.split(' == ')[1] == binary
            if isinstance(a, ast.Compare) and \
                    isinstance(a.ops[0], ast.In) and \
                    U(a.left) == 'self.packet_type' and \
                    isinstance(a.comparators[0], (ast.Tuple, ast.List)):
                return binary in [U(x) for x in a.comparators[0].elts]
            if t == 'self.namespace is None':
                return ns is None
            if t == "self.namespace == '/'":
                return ns == '/'
            if t == 'self.id is None':
                return not has_id
            if t == 'self.id':
                return None       # truthiness test on the id: id 0 matters
            if t in ('self.data is None',
                     'self._deconstruct_binary(self.data)[0] is None'):
                return not has_data
            if t == 'self._deconstruct_binary(self.data)[1] is None':
                return False
            if t == 'self.namespace':
                return ns is not None
            problems.append(t)
            return None
        run = run_function(f, ctx.model, oracle=oracle)
        row = 'type=%s namespace=%s id=%s data=%s' % (
            binary or 'non-binary', ns, 'set' if has_id else None,
            'set' if has_data else None)
        if problems or len(run.paths) != 1:
            ctx.bad(construct, 'layout-test ' + str(problems[:2]),
                    'the layout of row {%s} depends on a test outside the '
                    'field-presence abstraction: %s (e.g. a truthiness test '
                    'that drops id 0 or an empty payload)' % (
                        row, problems[:2] or '%d paths' % len(run.paths)),
                    w, witness=row)
            continue
        rows += 1
        p = run.paths[0]
        v = run.expand(p.value)
        atts = None
        if binary:
            parts = flatten_add(v)
            ok = len(parts) == 2 and isinstance(parts[0], ast.List) and \
                len(parts[0].elts) == 1 and \
                U(parts[1]) == 'self._deconstruct_binary(self.data)[1]'
            if not ok:
                ctx.bad(construct, 'frames', 'binary packet is not returned '
                        'as [text frame] + attachments: ' + U(v)[:80], w,
                        witness=row)
                continue
            v = parts[0].elts[0]
        got = [U(x) for x in flatten_add(v)]
        want = ['str(self.packet_type)']
        if binary:
            want += ['str(len(self._deconstruct_binary(self.data)[1]))',
                     "'-'"]
        if ns == 'other':
            want += ['self.namespace', "','"]
        if has_id:
            want += ['str(self.id)']
        if has_data:
            want += ["self.json.dumps(%s, separators=(',', ':'))" % (
                'self._deconstruct_binary(self.data)[0]' if binary
                else 'self.data')]
        ctx.check(got == want, construct, '[%s] frame = %s' % (
            row, ' + '.join(want)), key='layout', reason='row {%s}: the '
            'frame is %s, prescribed is %s' % (row, ' + '.join(got),
                                               ' + '.join(want)),
            where=w, witness=row)
    ctx.extra['layout_rows'] = rows


def r6_scanner(ctx):
    m = ctx.model
    f = m.own_method('Packet', 'decode')
    construct = 'Packet.decode'
    run = run_function(f, ctx.model, max_iter=1, max_paths=300000)
    attr_ints = set()
    for n in walk_own(f.node):
        if isinstance(n, ast.Assign) and \
                isinstance(n.targets[0], ast.Attribute):
            for c in ast.walk(n.value):
                if isinstance(c, ast.Call) and U(c.func) == 'int':
                    attr_ints.add(id(c))
    best = None
    for p in run.paths:
        if not p.normal:
            continue
        pos = {}
        for e in p.events:
            if e.kind == 'store':
                t = U(e.expr)
                if t == 'self.packet_type' and 'type' not in pos:
                    pos['type'] = e.idx
                if t == 'self.namespace' and not is_const(e.extra, None) \
                        and 'namespace' not in pos:
                    pos['namespace'] = e.idx
                if t == 'self.id' and 'id' not in pos:
                    pos['id'] = e.idx
                if t == 'self.data' and not is_const(e.extra, None) and \
                        'data' not in pos:
                    pos['data'] = e.idx
            if e.kind == 'call' and U(e.expr.func) == 'int' and \
                    'count' not in pos and id(e.node) not in attr_ints:
                pos['count'] = e.idx
        if len(pos) == 5:
            best = pos
            break
    if best is None:
        # fall back: the count conversion may not mention `dash`
        ctx.bad(construct, 'no-full-path', 'no path of decode extracts all '
                'five fields (type, count, namespace, id, data)', where(f))
        return
    order = sorted(best, key=lambda k: best[k])
    ctx.check(order == ['type', 'count', 'namespace', 'id', 'data'],
              construct, 'fields are extracted in the order the encoder '
              'emits them: type, count, namespace, id, data',
              key='scan-order', reason='decode extracts %s' % order,
              where=where(f))
    consts = {n.value for n in walk_own(f.node)
              if isinstance(n, ast.Constant) and isinstance(n.value, str)}
    enc = m.own_method('Packet', 'encode')
    econsts = {n.value for n in walk_own(enc.node)
               if isinstance(n, ast.Constant) and isinstance(n.value, str)
               and len(n.value) == 1}
    ctx.check({'-', ','} <= consts and {'-', ','} <= econsts and
              '/' in consts, construct, "separators '-' and ',' and the '/' "
              'prefix are the ones the encoder writes', key='separators',
              reason='decode looks for %s, encode appends %s' % (
                  sorted(c for c in consts if len(c) == 1), sorted(econsts)),
              where=where(f))
    # default namespace implied
    for cname in ('Server', 'Client'):
        pass


STR_CUTTERS = {'find', 'index', 'partition', 'rpartition', 'split',
               'rsplit', 'startswith', 'endswith', 'isdigit'}


def r7_namespace_extraction(ctx):
    """the decoder cuts the namespace out of the frame with the frame's own
    two separators: it ends at the first ',' and anything from the first '?'
    on is dropped - nothing else.  Every value assigned to self.namespace in
    decode is built from the frame text by slicing and by str methods whose
    constant arguments are ',' or '?'; any other function applied to it
    (a URL parser drops '#...' and reads '//x' as an authority) changes
    namespaces the encoder writes verbatim."""
    m = ctx.model
    f = m.own_method('Packet', 'decode')
    from ..sym import with_new_helpers
    n = 0
    for g in with_new_helpers(m, f):
        for a in walk_own(g.node):
            if not isinstance(a, ast.Assign):
                continue
            tg = []
            for t in a.targets:
                tg += list(t.elts) if isinstance(t, (ast.Tuple, ast.List)) \
                    else [t]
            if not any(U(t) == 'self.namespace' for t in tg):
                continue
            if isinstance(a.value, ast.Constant):
                continue
            n += 1
            bad = []
            for x in ast.walk(a.value):
                if isinstance(x, ast.Call):
                    ok = isinstance(x.func, ast.Attribute) and \
                        x.func.attr in STR_CUTTERS and all(
                            isinstance(y, ast.Constant) and
                            (y.value in (',', '?') or
                             isinstance(y.value, int))
                            for y in x.args) and not x.keywords
                    if not ok:
                        bad.append(x)
            ctx.check(not bad, 'Packet.' + g.name, 'the namespace is cut out '
                      'of the frame with the separators , and ? only',
                      key='namespace-cut', reason='the namespace is computed '
                      'through %s: characters other than the first "," and '
                      '"?" change what namespace a frame is decoded to, '
                      'while the encoder writes the namespace verbatim'
                      % (U(bad[0])[:60] if bad else ''), where=where(g, a))
    if not n:
        raise AnalysisError('Packet.decode: no computed assignment to '
                            'self.namespace found')


def run(ctx):
    ctx.rule('C01.R7', 'namespace extraction uses the frame\'s own '
             'separators only', floor=1)
    r7_namespace_extraction(ctx)
    ctx.rule('C01.R1', 'binary gate decision table (36 rows)', floor=36)
    r1_gate(ctx)
    ctx.rule('C01.R2', 'walker agreement: same container kinds, bytes leaf, '
             'dict values with keys kept', floor=10)
    r2_walkers(ctx)
    r2b_non_destructive(ctx)
    ctx.rule('C01.R3', 'placeholder schema and depth-first numbering',
             floor=5)
    r3_placeholder(ctx)
    ctx.rule('C01.R4', 'encoder layout decision table (36 rows)', floor=36)
    r4_layout(ctx)
    ctx.rule('C12.R2', 'hand-back protocol and decoder guards (shared rule)',
             floor=6)
    c12.r2_guards(ctx)
    ctx.rule('C01.R5', 'hand-back state is per packet (fresh list and count '
             'in __init__, no mutable class default, append-only)', floor=4)
    r5b_per_packet_state(ctx)
    ctx.rule('C01.R6', 'scanner order and separators agree with the emitter',
             floor=2)
    r6_scanner(ctx)
    ctx.assume('json.dumps/loads fidelity and the absence of grammar '
               'ambiguities (digit adjacency) are NOT decided')
    ctx.info('observation, not a check: for packet types other than '
             'EVENT/ACK a numeric payload is adjacent to the id digits '
             '(inherent in the wire format)')
