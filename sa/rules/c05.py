"""C05 - incoming events: one handler invocation, one matching ACK to the
sender only.

R1 packet-type dispatch table of _handle_eio_message (7 types + unknown).
R2 connected gate before the handler launch.
R3 the sid handed on is sid_from_eio_sid(own transport id, packet namespace).
R4 exactly one launch per gated path; inline (awaited) when async_handlers
   is false, background task otherwise; arguments bound position by
   position.
R5 ACK iff handled and id present (id over None / 0 / positive), with the
   event's namespace and id, to the sender's transport; payload packing.
R6 dispatch of data[0] / *data[1:] behind the sid.
R7 reassembly: dispatch only when complete, buffer entry removed first.
R8 engine.io is built with async_handlers=False (ordered delivery).
"""
import ast

from ..model import AnalysisError
from ..sym import U, is_const, Run, run_function
from ..util import (bind_call, strip_await, where, SA, SERVER, MANAGER,
                    ns_or_default, walk_own)
from .common import effects, txt
from . import msgpath


def launch_rules(ctx, fam):
    m = ctx.model
    S = SERVER[fam]
    f = m.method(S, '_handle_event')
    construct = S + '._handle_event'
    w = where(f)
    # called positionally from the dispatch table (C05.R1 checks that
    # binding): parameters are identified by position
    if len(f.params[1:]) != 4:
        raise AnalysisError(construct + ' signature changed')
    eio_p, ns_p, id_p, data_p = f.params[1:]
    nsx = "%s or '/'" % ns_p
    internal = m.method(S, '_handle_event_internal')
    run = run_function(f, m)
    n_gated = n_ungated = 0
    for p in run.paths:
        if not p.normal:
            continue
        launches = []
        for e in p.events:
            if e.kind != 'call':
                continue
            if e.callee() == '_handle_event_internal':
                launches.append(('inline', e, bind_call(e.expr, internal)))
            elif e.callee() == 'start_background_task' and e.expr.args and \
                    U(e.expr.args[0]).endswith('._handle_event_internal'):
                call = ast.Call(func=e.expr.args[0], args=e.expr.args[1:],
                                keywords=e.expr.keywords)
                launches.append(('task', e, bind_call(call, internal)))
        gate = None
        for c in p.conds:
            a = strip_await(run.expand(c.atom))
            if isinstance(a, ast.Call) and U(a.func) == \
                    'self.manager.is_connected':
                gate = (c, a)
        if gate is None or not gate[0].pol:
            n_ungated += 1
            ctx.check(not p.calls('_send_packet') and
                      not p.calls('_send_eio_packet'), construct,
                      'not connected to the namespace: nothing is answered',
                      key='ungated-answer', where=w, rid='C05.R2')
            ctx.check(not launches, construct, 'not connected to the '
                      'namespace: no handler is launched', key='ungated',
                      reason='a handler is launched on the path %s'
                      % p.describe()[:120], where=w, rid='C05.R2')
            continue
        n_gated += 1
        c, g = gate
        ga = [U(x) for x in g.args]
        sid_src = 'self.manager.sid_from_eio_sid(%s, %s)' % (eio_p, nsx)
        ctx.check(ga == [sid_src, nsx], construct,
                  'the gate tests (sid of this transport on the packet '
                  'namespace, that namespace)', key='gate-args',
                  reason='the connected-test is is_connected(%s)'
                  % ', '.join(ga), where=w, rid='C05.R3')
        ctx.check(len(launches) == 1, construct, 'exactly one launch on a '
                  'gated path', key='one-launch', reason='%d launches on '
                  'path %s' % (len(launches), p.describe()[:120]), where=w,
                  rid='C05.R4')
        for kind, e, b in launches:
            ctx.check(e.idx >= c.at, construct, 'launch after the gate',
                      key='gate-order', where=where(f, e.node),
                      rid='C05.R2')
            got = {k: U(run.expand(v)) for k, v in b.args.items()}
            ip = internal.params[1:]
            want = dict(zip(ip, ['self', sid_src, eio_p, data_p, nsx,
                                 id_p])) \
                if len(ip) == 6 else {}
            ctx.check(got == want and not b.errors, construct,
                      '%s launch binds (server, sid, eio_sid, data, '
                      'namespace, id) position by position' % kind,
                      key='launch-binding', reason='launch binds %s' % {
                          k: v for k, v in got.items()
                          if want.get(k) != v} or str(b.errors),
                      where=where(f, e.node), rid='C05.R4')
            mode = None
            for cc in p.conds:
                if cc.text == 'self.async_handlers':
                    mode = cc.pol
            ctx.check(mode is not None and (kind == 'task') == mode,
                      construct, 'background task iff async_handlers, '
                      'inline otherwise', key='launch-mode',
                      reason='%s launch with async_handlers=%s' % (kind,
                                                                   mode),
                      where=where(f, e.node), rid='C05.R4')
            if kind == 'inline' and f.is_async:
                aw = [x for x in p.events if x.kind == 'await' and
                      isinstance(x.node, ast.Await) and
                      x.node.value is e.node]
                ctx.check(bool(aw), construct, 'inline handler is awaited '
                          '(arrival order)', key='inline-await',
                          where=where(f, e.node), rid='C05.R4')
    if not n_gated or not n_ungated:
        ctx.bad(construct, 'gate-missing', 'the connected-namespace gate '
                '(is_connected) is gone', w, rid='C05.R2')


def internal_dispatch(ctx, fam):
    m = ctx.model
    S = SERVER[fam]
    f = m.method(S, '_handle_event_internal')
    construct = S + '._handle_event_internal'
    run = run_function(f, m)
    ps = f.params[1:]
    if len(ps) != 6:
        raise AnalysisError(construct + ' signature changed')
    _, sid_p, _, data_p, ns_p, _ = ps
    for p in run.paths:
        trig = p.calls('_trigger_event')
        for e in trig:
            a = e.expr.args
            good = len(a) == 4 and U(a[0]) == data_p + '[0]' and \
                U(a[1]) == ns_p and U(a[2]) == sid_p and \
                isinstance(a[3], ast.Starred) and \
                U(a[3].value) == data_p + '[1:]'
            ctx.check(good, construct, 'handler dispatcher receives '
                      '(data[0], namespace, sid, *data[1:])',
                      key='dispatch-args', reason='dispatcher invoked as %s'
                      % U(e.expr)[:90], where=where(f, e.node))


def r8_engineio_ordered(ctx):
    m = ctx.model
    f = m.method('BaseServer', '__init__')
    run = run_function(f, m, max_paths=200000)
    seen = 0
    bad = None
    for p in run.paths:
        if not p.normal:
            continue
        ctor = [e for e in p.events if e.kind == 'call' and
                isinstance(e.expr.func, ast.Call) and
                U(e.expr.func.func).endswith('_engineio_server_class')]
        for e in ctor:
            seen += 1
            opts = None
            for k in e.expr.keywords:
                if k.arg is None:
                    opts = U(k.value)
            st = [x for x in p.events if x.kind == 'store' and
                  x.idx < e.idx and opts and
                  U(x.expr) == "%s['async_handlers']" % opts]
            if not st or not is_const(st[-1].extra, False):
                bad = e
    if not seen:
        raise AnalysisError('BaseServer.__init__: engine.io server '
                            'construction not found')
    ctx.check(bad is None, 'BaseServer.__init__', 'engine.io is constructed '
              'with async_handlers=False whatever the application passes',
              key='eio-async-handlers', reason='the engine.io server can be '
              'built without async_handlers=False: messages of one client '
              'would be dispatched concurrently', where=where(
                  f, bad.node if bad else None))


def r10_task_kept(ctx):
    """asyncio: the event loop keeps only a weak reference to a task.  The
    handler task started for an event (async_handlers) is stored in a
    container under the task itself (set element, or a key built from the
    task) until it is done; stored under any other key, a second event with
    the same key drops the only strong reference and the first handler can be
    collected mid-way: its ACK is never sent."""
    m = ctx.model
    f = m.method('AsyncServer', '_handle_event')
    construct = 'AsyncServer._handle_event'
    run = run_function(f, m)
    n = 0
    for p in run.paths:
        for e in p.events:
            if not (e.kind == 'call' and
                    e.callee() == 'start_background_task'):
                continue
            n += 1
            # the symbol holding the task
            tsym = None
            for name, d in run.symdefs.items():
                if d['kind'] == 'assign' and d.get('node') is not None and \
                        isinstance(d['expr'], ast.Call) and \
                        U(d['expr']) == U(e.expr):
                    tsym = name
            kept = None
            for x in p.events[e.idx + 1:]:
                if x.kind == 'call' and x.callee() == 'add' and tsym and \
                        x.expr.args and U(x.expr.args[0]) == tsym:
                    kept = ('element', x)
                if x.kind == 'store' and isinstance(x.expr, ast.Subscript) \
                        and tsym and U(x.extra) == tsym:
                    key_has_task = any(
                        isinstance(y, ast.Name) and y.id == tsym
                        for y in ast.walk(x.expr.slice))
                    kept = ('key', x) if key_has_task else ('foreign', x)
            ctx.check(kept is not None and kept[0] != 'foreign', construct,
                      'the handler task is kept strongly referenced under '
                      'itself until done', key='task-reference',
                      reason='the handler task is %s: %s' % (
                          'not stored anywhere' if kept is None else
                          'stored under the key %s, which is not unique to '
                          'the task' % (run.pretty(kept[1].expr.slice)
                                        if kept[0] == 'foreign' else ''),
                          'only the event loop\'s weak reference (or a '
                          'slot the next event with the same key '
                          'overwrites) keeps the handler alive; once '
                          'collected it never sends its ACK'),
                      where=where(f, (kept[1] if kept else e).node))
    if not n:
        ctx.info('AsyncServer._handle_event starts no background task')


ADMISSION_TABLES = {'rooms', 'pending_disconnect'}


def r9_one_admission_table(ctx):
    """who is connected is decided by ONE table: the gate (is_connected), the
    transport->sid resolver and the sid->transport resolver all read
    rooms[namespace][None] (plus the pending marks) and nothing else.  A
    second index consulted by one of them can disagree with the table the
    others read (after a refused duplicate CONNECT, a failed entry, ...):
    events of a connected client are then resolved to a sid the gate does
    not know."""
    m = ctx.model
    from ..sym import with_new_helpers
    for fname in ('is_connected', 'sid_from_eio_sid', 'eio_sid_from_sid'):
        f = m.method('BaseManager', fname)
        construct = 'BaseManager.' + fname
        other = []
        reads_rooms = False
        for g in with_new_helpers(m, f):
            for n in walk_own(g.node):
                # delegation to another admission function (checked in its
                # own right) reads the same table
                if isinstance(n, ast.Attribute) and U(n.value) == 'self' \
                        and n.attr != fname and n.attr in (
                            'is_connected', 'sid_from_eio_sid',
                            'eio_sid_from_sid'):
                    reads_rooms = True
                if isinstance(n, ast.Attribute) and U(n.value) == 'self' \
                        and m.lookup(f.cls, n.attr) is None:
                    if n.attr == 'rooms':
                        reads_rooms = True
                    elif n.attr not in ADMISSION_TABLES and \
                            n.attr not in ('logger', 'server'):
                        other.append((g, n))
        ctx.check(reads_rooms and not other, construct, 'reads the admission '
                  'table rooms[namespace][None] and no other index',
                  key='one-table', reason='%s consults %s: a table the other '
                  'admission functions do not read, so the resolved sid and '
                  'the connected-test can disagree' % (
                      fname, sorted({'self.' + n.attr for _, n in other})
                      or 'no table at all'),
                  where=where(other[0][0], other[0][1]) if other
                  else where(f))


def r12_buffer_owner(ctx):
    """the partially received binary packet belongs to the TRANSPORT (all of
    a client's namespaces arrive on it): it is written by the message handler
    that reassembles it and released when the transport ends.  Any other
    writer - a namespace-level disconnect, an emit, a connect - throws away
    or replaces a packet another namespace of the same client is in the
    middle of sending: its attachment is then parsed as a packet of its own,
    the event is never dispatched and never acknowledged."""
    m = ctx.model
    owners = ('__init__', '_handle_eio_message', '_handle_eio_disconnect')
    classes = [m.cls(c) for c in ('BaseServer', 'Server', 'AsyncServer')]
    funcs = [f for c in classes for f in c.methods.values()]
    callers = {}
    for g in funcs:
        for t in m.callees(g):
            callers.setdefault(t, set()).add(g)

    def writes(f):
        out = []
        for n in m._walk_own(f.node):
            if isinstance(n, ast.Subscript) and \
                    isinstance(n.ctx, (ast.Store, ast.Del)) and \
                    U(n.value) == 'self._binary_packet':
                out.append(n)
            elif isinstance(n, ast.Call) and \
                    isinstance(n.func, ast.Attribute) and \
                    U(n.func.value) == 'self._binary_packet' and \
                    n.func.attr in ('pop', 'clear', 'setdefault', 'update',
                                    'popitem'):
                out.append(n)
            elif isinstance(n, ast.Attribute) and \
                    isinstance(n.ctx, (ast.Store, ast.Del)) and \
                    U(n) == 'self._binary_packet':
                out.append(n)
        return out

    def owned(f, depth=0):
        if f.name in owners:
            return True
        cs = callers.get(f, set())
        return bool(cs) and depth < 3 and f.name.startswith('_') and \
            all(owned(g, depth + 1) for g in cs)
    n = 0
    for f in funcs:
        for w in writes(f):
            n += 1
            ctx.check(owned(f), '%s.%s' % (f.cls.name, f.name),
                      'the pending binary packet of a transport is written '
                      'by the message handler / released at transport end',
                      key='foreign writer of _binary_packet',
                      reason='%s.%s writes self._binary_packet (%s): the '
                      'buffer belongs to the transport, on which every '
                      'namespace of the client arrives; a binary event '
                      'another namespace is in the middle of sending loses '
                      'its header - it is never dispatched nor acknowledged '
                      'and its attachment is parsed as a packet'
                      % (f.cls.name, f.name, U(w)[:50]), where=where(f, w),
                      rid='C05.R12')
    if n < 2:
        raise AnalysisError('C05.R12: only %d writers of _binary_packet '
                            'found' % n)


def run(ctx):
    ctx.rule('C05.R11', 'engine.io events are wired to the three handlers; '
             '_send_packet hands every frame to the transport', floor=6)
    msgpath.wiring(ctx, 'BaseServer', 'C05.R11')
    for fam in SA:
        msgpath.send_frames(ctx, SERVER[fam], 'C05.R11')
    ctx.rule('C05.R10', 'asyncio: a started handler task stays strongly '
             'referenced under itself', floor=1)
    r10_task_kept(ctx)
    ctx.rule('C05.R9', 'gate and sid resolvers read one admission table',
             floor=3)
    r9_one_admission_table(ctx)
    ctx.rule('C05.R1', 'packet-type dispatch table of the server (7 types + '
             'unknown): one arm each, arguments are the decoded packet\'s '
             'own fields and the own transport id', floor=30)
    for fam in SA:
        msgpath.dispatch_table(ctx, SERVER[fam], True)
    ctx.rule('C05.R2', 'handler launch dominated by is_connected', floor=4)
    ctx.rule('C05.R3', 'sid provenance: sid_from_eio_sid(own transport, '
             'packet namespace)', floor=2)
    ctx.rule('C05.R4', 'one launch per gated path, bound position by '
             'position, inline iff async_handlers is false', floor=10)
    for fam in SA:
        launch_rules(ctx, fam)
    ctx.rule('C05.R5', 'ACK iff handled and id is not None (id over None, 0, '
             'positive); namespace/id/transport of the event; payload '
             'packing None/tuple/other', floor=30)
    for fam in SA:
        msgpath.server_ack(ctx, fam, 'C05.R5', 'C05.R5')
    ctx.rule('C05.R6', 'dispatch passes data[0] and *data[1:] behind the '
             'sid', floor=2)
    for fam in SA:
        internal_dispatch(ctx, fam)
    ctx.rule('C05.R7', 'binary reassembly: attachment goes to the pending '
             'packet of this transport; dispatch only when complete; entry '
             'removed first', floor=16)
    for fam in SA:
        msgpath.reassembly(ctx, SERVER[fam], True)
    ctx.rule('C05.R12', 'who may write the per-transport reassembly buffer',
             floor=2)
    r12_buffer_owner(ctx)
    ctx.rule('C01.R5', 'the pending packet of one transport shares no '
             'reassembly state with other packets (fresh attachment list and '
             'count per packet) (shared rule)', floor=2)
    from .c01 import r5b_per_packet_state
    r5b_per_packet_state(ctx)
    ctx.rule('C05.R8', 'engine.io dispatches one client\'s messages in '
             'order (async_handlers=False)', floor=1)
    r8_engineio_ordered(ctx)
    ctx.rule('C13.R1', 'the responsible handler receives (sid, *args): '
             'server resolver table (shared rule)', floor=50)
    ctx.rule('C13.R2', 'namespace-handler table (shared rule)', floor=4)
    ctx.rule('C13.R3', 'server _trigger_event passes the resolved '
             'arguments on (shared rule)', floor=10)
    from . import c13
    ctx._cur = 'C13.R1'
    c13.table_rule(ctx, 'BaseServer', '_get_event_handler', c13.event_states,
                   c13.spec_event, c13.names_event)
    ctx._cur = 'C13.R2'
    c13.table_rule(ctx, 'BaseServer', '_get_namespace_handler',
                   c13.ns_states, c13.spec_ns, c13.names_ns)
    ctx._cur = 'C13.R3'
    for cname in ('Server', 'AsyncServer'):
        c13.r3_trigger(ctx, cname, True)
    ctx.rule('C13.R4', 'class-based namespaces hand the method\'s result '
             'back (it becomes the ACK payload) (shared rule)', floor=6)
    for cname in ('Namespace', 'AsyncNamespace'):
        c13.r4_namespace_trigger(ctx, cname)
    ctx.assume('engine.io delivers the frames of one client in order and '
               'contains exceptions of the message callback')
    ctx.assume('exactly-once over whole sequences follows from exactly one '
               'launch per packet path; it is not separately explored')
