"""Twin normal form (K9): reduce a threaded method and its asyncio twin to a
common normal form and diff the results statement by statement.

Normalisation steps (each is the regular sync<->asyncio translation used
throughout the package, not a frozen fragment):
  * docstrings and logging/print statements removed;
  * `await`, `async def/for/with`, `__aenter__/__aexit__` erased;
  * Async class names mapped to their threaded names;
  * `raise X from None` == `raise X`;
  * handlers for asyncio.CancelledError dropped (an emptied try is unwrapped);
  * `if asyncio.iscoroutinefunction(h): A else: B` with A == B collapses;
    `ret = f(); if asyncio.iscoroutine(ret): await ret` == `f()`;
  * `v = E ... return v` == `return E` (returns are sunk into branches);
  * timed wait: `E.wait(timeout=T)` (threaded) and
    `try: await asyncio.wait_for(E.wait(), T) ... except asyncio.TimeoutError`
    (asyncio, also around `while True` and in the boolean-flag form) both
    become the boolean node WAIT(E, T);
  * `task.join()` == `await task`;
  * `tasks.append(asyncio.create_task(X))` + `asyncio.wait(tasks)` == `X`;
  * `if c: ...exit else: X` == `if c: ...exit; X`;
  * keyword arguments sorted.
"""
import ast
import copy
import difflib

LOG_PREFIXES = ('self.logger.', 'self._get_logger().', 'logger.',
                'self.server.logger.', 'self.sio.logger.')

NAME_MAP = {
    'engineio.AsyncServer': 'engineio.Server',
    'engineio.AsyncClient': 'engineio.Client',
    'AsyncClient': 'Client', 'AsyncServer': 'Server',
    'AsyncManager': 'Manager', 'AsyncPubSubManager': 'PubSubManager',
    'async_manager.AsyncManager': 'manager.Manager',
    'AsyncSocket': 'Socket', 'InstrumentedAsyncServer': 'InstrumentedServer',
    'asyncio.Event': 'Event', 'threading.Event': 'Event',
    'asyncio.sleep': 'time.sleep',
    'aioredis.Redis': 'redis.Redis', 'aioredis': 'redis',
    'RedisError': 'redis.exceptions.RedisError',
}


def U(n):
    ast.fix_missing_locations(n)
    return ast.unparse(n)


def P(src, mode='eval'):
    return ast.parse(src, mode=mode).body


def is_log(s):
    if isinstance(s, ast.Expr) and isinstance(s.value, ast.Call):
        f = U(s.value.func)
        return f.startswith(LOG_PREFIXES) or f == 'print'
    return False


def is_doc(s):
    return isinstance(s, ast.Expr) and isinstance(s.value, ast.Constant) \
        and isinstance(s.value.value, str)


class Erase(ast.NodeTransformer):
    def visit_Await(self, n):
        v = self.visit(n.value)
        # `await task` (a plain attribute / name) == task.join()
        if isinstance(v, (ast.Attribute, ast.Name)):
            return ast.Call(func=ast.Name('JOIN', ast.Load()), args=[v],
                            keywords=[])
        return v

    def visit_AsyncFunctionDef(self, n):
        self.generic_visit(n)
        nm = {'__aenter__': '__enter__',
              '__aexit__': '__exit__'}.get(n.name, n.name)
        return ast.FunctionDef(name=nm, args=n.args, body=n.body,
                               decorator_list=n.decorator_list, returns=None,
                               type_comment=None, type_params=[])

    def visit_AsyncFor(self, n):
        self.generic_visit(n)
        return ast.For(target=n.target, iter=n.iter, body=n.body,
                       orelse=n.orelse)

    def visit_AsyncWith(self, n):
        self.generic_visit(n)
        return ast.With(items=n.items, body=n.body)

    def visit_Call(self, n):
        self.generic_visit(n)
        f = U(n.func)
        if f == 'asyncio.create_task' and len(n.args) == 1:
            return n.args[0]
        if isinstance(n.func, ast.Attribute) and n.func.attr == 'join' and \
                not n.args and not n.keywords and \
                U(n.func.value).endswith('_task'):
            return ast.Call(func=ast.Name('JOIN', ast.Load()),
                            args=[n.func.value], keywords=[])
        if f == 'asyncio.gather' and len(n.args) == 1:
            return ast.Call(func=ast.Name('JOIN', ast.Load()),
                            args=[n.args[0]], keywords=[])
        return n

    def visit_Raise(self, n):
        self.generic_visit(n)
        n.cause = None
        return n

    def visit_ImportFrom(self, n):
        mod = (n.module or '')
        mod = mod.replace('async_', '')
        names = [ast.alias(name=NAME_MAP.get(a.name, a.name),
                           asname=a.asname) for a in n.names]
        return ast.ImportFrom(module=mod, names=names, level=n.level)

    def visit_Attribute(self, n):
        self.generic_visit(n)
        t = U(n)
        if t in NAME_MAP:
            return P(NAME_MAP[t])
        return n

    def visit_Name(self, n):
        if n.id in NAME_MAP and isinstance(n.ctx, ast.Load):
            return P(NAME_MAP[n.id])
        return n


def wait_call(e):
    """E.wait(timeout=T) / E.wait(T) -> (E, T)"""
    if isinstance(e, ast.Call) and isinstance(e.func, ast.Attribute) and \
            e.func.attr == 'wait' and U(e.func.value) != 'asyncio':
        T = None
        if e.args:
            T = e.args[0]
        for k in e.keywords:
            if k.arg == 'timeout':
                T = k.value
        if T is not None:
            return e.func.value, T
    return None


def waitfor_call(e):
    """asyncio.wait_for(E.wait(), T)"""
    if isinstance(e, ast.Call) and U(e.func) == 'asyncio.wait_for' and \
            e.args and isinstance(e.args[0], ast.Call) and \
            isinstance(e.args[0].func, ast.Attribute) and \
            e.args[0].func.attr == 'wait':
        if len(e.args) > 1:
            T = e.args[1]
        else:
            T = [k.value for k in e.keywords if k.arg == 'timeout']
            T = T[0] if T else None
        if T is not None:
            return e.args[0].func.value, T
    return None


def WAIT(E, T):
    return ast.Call(func=ast.Name('WAIT', ast.Load()), args=[E, T],
                    keywords=[])


class WaitSync(ast.NodeTransformer):
    def visit_Call(self, n):
        self.generic_visit(n)
        w = wait_call(n)
        return WAIT(*w) if w else n


def is_handler_for(h, name):
    return h.type is not None and U(h.type) == name


def only_pass(b):
    return len(b) == 1 and isinstance(b[0], ast.Pass)


def canon_block(stmts):
    out = []
    for s in stmts:
        if is_doc(s) or is_log(s):
            continue
        r = canon_stmt(s)
        if r is None:
            continue
        if isinstance(r, list):
            out.extend(r)
        else:
            out.append(r)
    # `if asyncio.iscoroutinefunction(x): REST` followed by the same REST
    j = 0
    while j < len(out):
        x = out[j]
        if isinstance(x, ast.If) and not x.orelse and \
                U(x.test).startswith('asyncio.iscoroutinefunction(') and \
                [U(y) for y in x.body] == [U(y) for y in out[j + 1:]]:
            del out[j]
            continue
        j += 1
    # boolean-flag timed wait:  flag = False; if WAIT: flag = True ; if flag:
    i = 0
    while i + 2 < len(out) + 0:
        a, b, c = out[i], out[i + 1], out[i + 2] if i + 2 < len(out) else None
        if c is not None and isinstance(a, ast.Assign) and \
                isinstance(a.targets[0], ast.Name) and \
                isinstance(a.value, ast.Constant) and a.value.value is False \
                and isinstance(b, ast.If) and not b.orelse and \
                U(b.test).startswith('WAIT(') and len(b.body) == 1 and \
                U(b.body[0]) == '%s = True' % a.targets[0].id and \
                isinstance(c, ast.If) and U(c.test) == a.targets[0].id:
            c.test = b.test
            out[i:i + 3] = [c]
            continue
        i += 1
    return out or [ast.Pass()]


def match_to_if(s):
    """`match` on a side-effect-free subject with value / singleton / or /
    wildcard patterns == the if/elif chain comparing the subject"""
    subj = s.subject
    if any(isinstance(n, (ast.Call, ast.Await, ast.Subscript))
           for n in ast.walk(subj)):
        return None

    def cond(pat):
        if isinstance(pat, ast.MatchValue):
            return ast.Compare(left=subj, ops=[ast.Eq()],
                               comparators=[pat.value])
        if isinstance(pat, ast.MatchSingleton):
            return ast.Compare(left=subj, ops=[ast.Is()],
                               comparators=[ast.Constant(pat.value)])
        if isinstance(pat, ast.MatchClass) and not pat.patterns and \
                not pat.kwd_patterns:
            return ast.Call(func=ast.Name(id='isinstance', ctx=ast.Load()),
                            args=[subj, pat.cls], keywords=[])
        if isinstance(pat, ast.MatchOr):
            parts = [cond(q) for q in pat.patterns]
            if any(q is None or q is True for q in parts):
                return None
            return ast.BoolOp(op=ast.Or(), values=parts)
        if isinstance(pat, ast.MatchAs) and pat.pattern is None and \
                pat.name is None:
            return True
        return None
    head = tail = None
    for c in s.cases:
        t = cond(c.pattern)
        if t is None:
            return None
        if c.guard is not None:
            t = c.guard if t is True else ast.BoolOp(op=ast.And(),
                                                     values=[t, c.guard])
        if t is True:
            if tail is None:
                return list(c.body)
            tail.orelse = list(c.body)
            return head
        node = ast.If(test=t, body=list(c.body), orelse=[])
        if head is None:
            head = node
        else:
            tail.orelse = [node]
        tail = node
    return head


def canon_stmt(s):
    if isinstance(s, ast.With):
        from .sym import suppress_types
        sup = suppress_types(s)
        if sup is not None:
            return canon_stmt(ast.Try(
                body=list(s.body), handlers=[ast.ExceptHandler(
                    type=sup, name=None, body=[ast.Pass()])], orelse=[],
                finalbody=[]))
    if isinstance(s, ast.Match):
        r = match_to_if(s)
        if r is not None:
            if isinstance(r, list):
                return canon_block(r)
            return canon_stmt(r)
    if isinstance(s, (ast.FunctionDef, ast.ClassDef)):
        s.body = canon_block(s.body)
        return s
    for fld in ('body', 'orelse', 'finalbody'):
        v = getattr(s, fld, None)
        if isinstance(v, list) and v:
            setattr(s, fld, canon_block(v))
    if isinstance(s, ast.Try):
        for h in s.handlers:
            h.body = canon_block(h.body)
        ch = [h for h in s.handlers
              if is_handler_for(h, 'asyncio.CancelledError')]
        if ch:
            s.handlers = [h for h in s.handlers if h not in ch]
            if not s.handlers and not s.finalbody:
                return canon_block(s.body + s.orelse)
        th = [h for h in s.handlers
              if is_handler_for(h, 'asyncio.TimeoutError')]
        oth = [h for h in s.handlers if h not in th]
        if th and not oth and not s.finalbody and not s.orelse:
            b = s.body
            if isinstance(b[0], ast.Expr) and waitfor_call(b[0].value):
                E, T = waitfor_call(b[0].value)
                rest = b[1:] or [ast.Pass()]
                H = th[0].body
                if only_pass(H):
                    return ast.If(test=WAIT(E, T), body=rest, orelse=[])
                if only_pass(rest):
                    return ast.If(test=ast.UnaryOp(ast.Not(), WAIT(E, T)),
                                  body=H, orelse=[])
                return ast.If(test=WAIT(E, T), body=rest, orelse=H)
            if len(b) == 1 and isinstance(b[0], ast.While) and \
                    U(b[0].test) == 'True' and \
                    isinstance(b[0].body[0], ast.Expr) and \
                    waitfor_call(b[0].body[0].value) and \
                    only_pass(th[0].body):
                E, T = waitfor_call(b[0].body[0].value)
                return ast.While(test=WAIT(E, T), body=b[0].body[1:],
                                 orelse=[])
        return s
    if isinstance(s, ast.For) and not s.orelse and len(s.body) == 1 and \
            isinstance(s.body[0], ast.Expr) and \
            isinstance(s.body[0].value, ast.Yield) and \
            s.body[0].value.value is not None and \
            U(s.body[0].value.value) == U(s.target):
        return ast.Expr(value=ast.YieldFrom(value=s.iter))
    if isinstance(s, ast.Expr) and 'task_reference_holder' in U(s):
        return None      # asyncio task bookkeeping (checked by C11.R4)
    if isinstance(s, ast.If):
        t = U(s.test)
        if t.startswith('asyncio.iscoroutinefunction('):
            a = '\n'.join(U(x) for x in s.body)
            b = '\n'.join(U(x) for x in s.orelse)
            if a == b:
                return s.body
        if t.startswith('asyncio.iscoroutine(') and not s.orelse:
            # `if asyncio.iscoroutine(ret): ret` (await erased) is a no-op
            inner = s.body
            if len(inner) == 1 and isinstance(inner[0], ast.Expr) and \
                    U(inner[0].value) in (U(s.test.args[0]),
                                          'JOIN(%s)' % U(s.test.args[0])):
                return None
    return s


def sink_returns(body):
    changed = True
    while changed:
        changed = False
        if len(body) >= 2 and isinstance(body[-1], ast.Return) and \
                isinstance(body[-1].value, ast.Name):
            v = body[-1].value.id
            p = body[-2]
            if isinstance(p, ast.Assign) and len(p.targets) == 1 and \
                    isinstance(p.targets[0], ast.Name) and \
                    p.targets[0].id == v:
                body[-2:] = [ast.Return(value=p.value)]
                changed = True
            elif isinstance(p, ast.If) and p.orelse:
                p.body = sink_returns(p.body + [copy.deepcopy(body[-1])])
                p.orelse = sink_returns(p.orelse + [copy.deepcopy(body[-1])])
                body.pop()
                changed = True
            elif isinstance(p, ast.Try) and not p.finalbody and not p.orelse:
                p.body = sink_returns(p.body + [copy.deepcopy(body[-1])])
                for h in p.handlers:
                    h.body = sink_returns(h.body + [copy.deepcopy(body[-1])])
                body.pop()
                changed = True
    for s in body:
        for fld in ('body', 'orelse', 'finalbody'):
            v = getattr(s, fld, None)
            if isinstance(v, list) and v and not isinstance(s, ast.ClassDef):
                setattr(s, fld, sink_returns(v))
        if isinstance(s, ast.Try):
            for h in s.handlers:
                h.body = sink_returns(h.body)
        if isinstance(s, ast.ClassDef):
            for m in s.body:
                if isinstance(m, ast.FunctionDef):
                    m.body = sink_returns(m.body)
    return body


def drop_tasks(body):
    out = []
    for s in body:
        t = U(s)
        if t in ('tasks = []', 'asyncio.wait(tasks)') or \
                t.startswith('if tasks == []'):
            continue
        if isinstance(s, ast.Expr) and isinstance(s.value, ast.Call) and \
                U(s.value.func) == 'tasks.append':
            s = ast.Expr(value=s.value.args[0])
        for fld in ('body', 'orelse', 'finalbody'):
            v = getattr(s, fld, None)
            if isinstance(v, list) and v:
                setattr(s, fld, drop_tasks(v))
        out.append(s)
    return out


def drop_bare_expr(body):
    """`ret` as an expression statement (left by erasing `await ret`)"""
    out = []
    for s in body:
        for fld in ('body', 'orelse', 'finalbody'):
            v = getattr(s, fld, None)
            if isinstance(v, list) and v and not isinstance(s, ast.ClassDef):
                setattr(s, fld, drop_bare_expr(v) or [ast.Pass()])
        if isinstance(s, ast.Try):
            for h in s.handlers:
                h.body = drop_bare_expr(h.body) or [ast.Pass()]
        if isinstance(s, ast.Expr) and isinstance(s.value, ast.Name):
            continue
        out.append(s)
    return out


def strip_else_after_exit(body):
    out = []
    for s in body:
        for fld in ('body', 'orelse', 'finalbody'):
            v = getattr(s, fld, None)
            if isinstance(v, list) and v and not isinstance(s, ast.ClassDef):
                setattr(s, fld, strip_else_after_exit(v))
        if isinstance(s, ast.Try):
            for h in s.handlers:
                h.body = strip_else_after_exit(h.body)
        if isinstance(s, ast.If) and s.orelse and isinstance(
                s.body[-1], (ast.Return, ast.Raise, ast.Break, ast.Continue)):
            rest = s.orelse
            s.orelse = []
            out.append(s)
            out.extend(rest)
        else:
            out.append(s)
    return out


def drop_dead_code(body):
    out = []
    for s in body:
        for fld in ('body', 'orelse', 'finalbody'):
            v = getattr(s, fld, None)
            if isinstance(v, list) and v and not isinstance(s, ast.ClassDef):
                setattr(s, fld, drop_dead_code(v))
        if isinstance(s, ast.Try):
            for h in s.handlers:
                h.body = drop_dead_code(h.body)
        if isinstance(s, ast.ClassDef):
            for m in s.body:
                if isinstance(m, ast.FunctionDef):
                    m.body = drop_dead_code(m.body)
        out.append(s)
        if isinstance(s, (ast.Return, ast.Raise, ast.Break, ast.Continue)):
            break
    return out


def own_nodes(fn):
    stack = list(ast.iter_child_nodes(fn))
    while stack:
        n = stack.pop()
        yield n
        if isinstance(n, (ast.FunctionDef, ast.ClassDef, ast.Lambda)):
            continue
        stack.extend(ast.iter_child_nodes(n))


def locals_cleanup(fn):
    """(a) a local assigned exactly once from getattr(...) is inlined at
    its uses (the threaded side writes getattr(self, name)(*args), the
    asyncio side names the handler first); (b) a local that is assigned but
    never read is a dead store: `v = E` becomes the statement `E`."""
    stores, loads = {}, {}
    for n in own_nodes(fn):
        if isinstance(n, ast.Name):
            d = stores if isinstance(n.ctx, ast.Store) else loads
            d[n.id] = d.get(n.id, 0) + 1
    params = {a.arg for a in fn.args.args + fn.args.kwonlyargs}
    inline = {}
    for n in own_nodes(fn):
        if isinstance(n, ast.Assign) and len(n.targets) == 1 and \
                isinstance(n.targets[0], ast.Name):
            v = n.targets[0].id
            if stores.get(v) == 1 and v not in params and \
                    isinstance(n.value, ast.Call) and \
                    U(n.value.func) == 'getattr':
                inline[v] = n.value

    class I(ast.NodeTransformer):
        def visit_FunctionDef(self, n):
            if n is fn:
                self.generic_visit(n)
            return n

        def visit_Assign(self, n):
            if len(n.targets) == 1 and isinstance(n.targets[0], ast.Name):
                v = n.targets[0].id
                if v in inline:
                    return None
                if stores.get(v, 0) >= 1 and not loads.get(v) and \
                        v not in params:
                    return ast.Expr(value=self.visit(n.value))
            self.generic_visit(n)
            return n

        def visit_Name(self, n):
            if isinstance(n.ctx, ast.Load) and n.id in inline:
                return copy.deepcopy(inline[n.id])
            return n
    I().visit(fn)
    return fn


def normalise(fnode):
    m = copy.deepcopy(fnode)
    m = Erase().visit(m)
    m = WaitSync().visit(m)
    m.body = canon_block(m.body)
    m.body = drop_tasks(m.body)
    m.body = drop_bare_expr(m.body) or [ast.Pass()]
    m.body = sink_returns(m.body)
    m.body = drop_dead_code(m.body)
    m.body = strip_else_after_exit(m.body)
    m = locals_cleanup(m)
    m.body = [x for x in m.body if x is not None] or [ast.Pass()]
    for k in ast.walk(m):
        if isinstance(k, ast.Call):
            k.keywords.sort(key=lambda kw: kw.arg or '')
    ast.fix_missing_locations(m)
    return m


COMPOUND = (ast.If, ast.For, ast.While, ast.Try, ast.With, ast.FunctionDef,
            ast.ClassDef)


def header(s):
    if isinstance(s, ast.If):
        return 'if ' + U(s.test)
    if isinstance(s, ast.While):
        return 'while ' + U(s.test)
    if isinstance(s, ast.For):
        return 'for %s in %s' % (U(s.target), U(s.iter))
    if isinstance(s, ast.With):
        return 'with ' + ', '.join(U(i) for i in s.items)
    if isinstance(s, ast.Try):
        return 'try/' + '/'.join(U(h.type) if h.type is not None else 'bare'
                                 for h in s.handlers)
    if isinstance(s, ast.FunctionDef):
        return 'def %s(%s)' % (s.name, U(s.args))
    if isinstance(s, ast.ClassDef):
        return 'class ' + s.name
    return None


def sub_blocks(s):
    if isinstance(s, ast.Try):
        return [s.body] + [h.body for h in s.handlers] + [s.orelse,
                                                           s.finalbody]
    if isinstance(s, (ast.FunctionDef, ast.ClassDef, ast.With)):
        return [s.body]
    return [s.body, getattr(s, 'orelse', [])]


def diff_blocks(a, b, out, ctx=''):
    """Recursive statement diff; appends (context, sync_text, async_text)."""
    ta = [U(x) for x in a]
    tb = [U(x) for x in b]
    sm = difflib.SequenceMatcher(a=ta, b=tb, autojunk=False)
    for tag, i1, i2, j1, j2 in sm.get_opcodes():
        if tag == 'equal':
            continue
        xa, xb = a[i1:i2], b[j1:j2]
        # pair up compound statements with identical headers and recurse
        k = 0
        while k < min(len(xa), len(xb)):
            sa, sb = xa[k], xb[k]
            if type(sa) is type(sb) and isinstance(sa, COMPOUND) and \
                    header(sa) == header(sb):
                for ba, bb in zip(sub_blocks(sa), sub_blocks(sb)):
                    diff_blocks(ba, bb, out, ctx + header(sa) + ': ')
            else:
                out.append((ctx, U(sa), U(sb)))
            k += 1
        for sa in xa[k:]:
            out.append((ctx, U(sa), None))
        for sb in xb[k:]:
            out.append((ctx, None, U(sb)))


def stored_names(fn):
    out = []
    for n in ast.walk(fn):
        if isinstance(n, ast.Name) and isinstance(n.ctx, ast.Store) and \
                n.id not in out:
            out.append(n.id)
        if isinstance(n, ast.ExceptHandler) and n.name and \
                n.name not in out:
            out.append(n.name)
    params = {a.arg for a in fn.args.args + fn.args.kwonlyargs}
    return [x for x in out if x not in params]


def align_locals(na, nb):
    """a local renamed on one side only is not drift: when both normal
    forms store the same number of distinct locals, the asyncio side's names
    are mapped position by position onto the threaded side's."""
    # order by first textual occurrence
    def ordered(fn):
        seen = []
        for n in sorted((x for x in ast.walk(fn) if isinstance(x, ast.Name)
                         and hasattr(x, 'lineno')),
                        key=lambda x: (x.lineno, x.col_offset)):
            if isinstance(n.ctx, ast.Store) and n.id not in seen:
                seen.append(n.id)
        return seen
    ast.fix_missing_locations(na)
    ast.fix_missing_locations(nb)
    # re-parse to get real positions
    ra = ast.parse(ast.unparse(na)).body[0]
    rb = ast.parse(ast.unparse(nb)).body[0]
    sa = [x for x in ordered(ra) if x in stored_names(ra)]
    sb = [x for x in ordered(rb) if x in stored_names(rb)]
    if len(sa) != len(sb) or sa == sb:
        return na, nb
    ren = {y: x for x, y in zip(sa, sb) if x != y}
    if set(ren) & set(sa) or len(set(ren.values())) != len(ren):
        return na, nb

    class R(ast.NodeTransformer):
        def visit_Name(self, n):
            if n.id in ren:
                return ast.Name(id=ren[n.id], ctx=n.ctx)
            return n

        def visit_ExceptHandler(self, n):
            self.generic_visit(n)
            if n.name in ren:
                n.name = ren[n.name]
            return n
    return na, R().visit(nb)


# name -> ast.FunctionDef of the synchronous private helpers that BOTH twins
# inherit from a common base class (filled by C14 from the program model).
# A call to one of them may be inlined on both sides before the comparison
# (second attempt only): a helper extracted from the threaded twin's whole
# arm and from the asyncio twin's non-coroutine arm leaves the two functions
# exactly as comparable as before the extraction.
HELPERS = {}


def _always_exits(body):
    if not body:
        return False
    s = body[-1]
    if isinstance(s, (ast.Return, ast.Raise)):
        return True
    if isinstance(s, ast.If):
        return _always_exits(s.body) and _always_exits(s.orelse)
    if isinstance(s, ast.Try):
        if s.finalbody and _always_exits(s.finalbody):
            return True
        main = s.body + s.orelse
        return _always_exits(main) and all(_always_exits(h.body)
                                           for h in s.handlers)
    return False


def _tail_returns_only(body):
    for s in body[:-1]:
        if any(isinstance(n, ast.Return) for n in ast.walk(s)):
            return False
    if not body:
        return True
    s = body[-1]
    if isinstance(s, ast.If):
        return _tail_returns_only(s.body) and _tail_returns_only(s.orelse)
    if isinstance(s, ast.Try):
        def no_ret(b):
            return not any(isinstance(n, ast.Return) for x in b
                           for n in ast.walk(x))
        if not no_ret(s.finalbody):
            return False
        hs = all(_tail_returns_only(h.body) for h in s.handlers)
        if s.orelse:
            return no_ret(s.body) and _tail_returns_only(s.orelse) and hs
        return _tail_returns_only(s.body) and hs
    if isinstance(s, (ast.For, ast.While, ast.With)):
        return not any(isinstance(n, ast.Return) for n in ast.walk(s))
    return True


def _simple_arg(a):
    while isinstance(a, ast.Attribute):
        a = a.value
    return isinstance(a, (ast.Name, ast.Constant))


def _bind_helper(h, call):
    params = [a.arg for a in h.args.args][1:]
    if h.args.vararg or h.args.kwarg or h.args.kwonlyargs or \
            any(isinstance(a, ast.Starred) for a in call.args) or \
            any(k.arg is None for k in call.keywords):
        return None
    if len(call.args) > len(params):
        return None
    bound = dict(zip(params, call.args))
    for k in call.keywords:
        if k.arg not in params or k.arg in bound:
            return None
        bound[k.arg] = k.value
    dflt = dict(zip(params[len(params) - len(h.args.defaults):],
                    h.args.defaults))
    for q in params:
        if q not in bound:
            if q not in dflt:
                return None
            bound[q] = dflt[q]
    if not all(_simple_arg(v) for v in bound.values()):
        return None
    # parameters re-assigned in the helper would need fresh locals
    for n in ast.walk(h):
        if isinstance(n, ast.Name) and isinstance(n.ctx, ast.Store) and \
                n.id in bound:
            return None
    return bound


def _instantiate(h, bound, ret):
    """copy of the helper's body with parameters substituted; ret(value)
    builds the statement that replaces `return value`"""
    body = copy.deepcopy([x for x in h.body if not is_doc(x)])
    local = {n.id for x in body for n in ast.walk(x)
             if isinstance(n, ast.Name) and isinstance(n.ctx, ast.Store)}

    class S(ast.NodeTransformer):
        def visit_Name(self, n):
            if n.id in bound and isinstance(n.ctx, ast.Load):
                return copy.deepcopy(bound[n.id])
            if n.id in local:
                return ast.Name(id='_%s_%s' % (h.name.strip('_'), n.id),
                                ctx=n.ctx)
            return n

        def visit_Return(self, n):
            self.generic_visit(n)
            return ret(n.value if n.value is not None
                       else ast.Constant(None))

        def visit_FunctionDef(self, n):
            return n
        visit_AsyncFunctionDef = visit_Lambda = visit_FunctionDef
    return [S().visit(x) for x in body]


def inline_helpers(fnode):
    """-> (copy of fnode with calls to HELPERS inlined, number inlined)"""
    fnode = copy.deepcopy(fnode)
    count = [0]

    def helper_call(v):
        if isinstance(v, ast.Await):
            return None
        if isinstance(v, ast.Call) and isinstance(v.func, ast.Attribute) \
                and isinstance(v.func.value, ast.Name) and \
                v.func.value.id == 'self' and v.func.attr in HELPERS:
            h = HELPERS[v.func.attr]
            b = _bind_helper(h, v)
            if b is not None:
                return h, b
        return None

    def block(stmts):
        out = []
        for s in stmts:
            for fld in ('body', 'orelse', 'finalbody'):
                if isinstance(getattr(s, fld, None), list) and \
                        not isinstance(s, (ast.FunctionDef,
                                           ast.AsyncFunctionDef)):
                    setattr(s, fld, block(getattr(s, fld)))
            for hd in getattr(s, 'handlers', []) or []:
                hd.body = block(hd.body)
            rep = None
            if isinstance(s, ast.Return) and s.value is not None:
                hb = helper_call(s.value)
                if hb:
                    rep = _instantiate(hb[0], hb[1],
                                       lambda v: ast.Return(value=v))
                    if not _always_exits(rep):
                        rep.append(ast.Return(value=ast.Constant(None)))
            elif isinstance(s, ast.Assign) and len(s.targets) == 1 and \
                    isinstance(s.targets[0], ast.Name):
                hb = helper_call(s.value)
                tgt = s.targets[0].id
                if hb and _tail_returns_only(hb[0].body) and \
                        _always_exits([x for x in hb[0].body
                                       if not is_doc(x)]):
                    rep = _instantiate(hb[0], hb[1], lambda v: ast.Assign(
                        targets=[ast.Name(id=tgt, ctx=ast.Store())],
                        value=v, lineno=0))
            elif isinstance(s, ast.Expr):
                hb = helper_call(s.value)
                if hb and _tail_returns_only(hb[0].body):
                    rep = _instantiate(hb[0], hb[1],
                                       lambda v: ast.Expr(value=v))
            if rep is not None:
                count[0] += 1
                out.extend(rep)
            else:
                out.append(s)
        return out
    fnode.body = block(fnode.body)
    ast.fix_missing_locations(fnode)
    return fnode, count[0]


def diff_functions(fa, fb):
    na, nb = normalise(fa), normalise(fb)
    na, nb = align_locals(na, nb)
    out = []
    diff_blocks(na.body, nb.body, out)
    if out and HELPERS:
        ia, ka = inline_helpers(fa)
        ib, kb = inline_helpers(fb)
        if ka or kb:
            na, nb = normalise(ia), normalise(ib)
            na, nb = align_locals(na, nb)
            out2 = []
            diff_blocks(na.body, nb.body, out2)
            if not out2:
                return out2
    return out


def signature(fnode):
    a = fnode.args
    names = [x.arg for x in a.posonlyargs + a.args]
    defaults = [None] * (len(names) - len(a.defaults)) + \
        [ast.unparse(d) for d in a.defaults]
    return (list(zip(names, defaults)),
            a.vararg.arg if a.vararg else None,
            [(k.arg, ast.unparse(d) if d is not None else None)
             for k, d in zip(a.kwonlyargs, a.kw_defaults)],
            a.kwarg.arg if a.kwarg else None)
