"""Interprocedural facts computed over the call graph: which functions may
suspend (asyncio), which reach application code (handlers / callbacks)."""
import ast

from .model import Model, FuncInfo
from .sym import U

# external awaitables that never yield to the event loop do not exist in the
# stub table: every await of something outside the package may suspend.

# names through which application code is invoked
APP_ENTRY_NAMES = {'trigger_event'}

# calls of a call result that are not invocations of application handlers
# (one symbol each, with the reason)
NOT_APP_FACTORIES = {
    'self._engineio_server_class': 'instantiates the engine.io server class',
    'self._engineio_client_class': 'instantiates the engine.io client class',
    'self.on': 'decorator registration: self.on(name)(handler) stores the '
               'handler, it does not invoke it',
}
# locals that hold library functions, not application code
NOT_APP_LOCALS = {
    ('kombu_manager.KombuManager._publish', 'producer_publish'):
        'kombu producer.publish wrapped by connection.ensure',
}


def _dynamic_callee(f, call):
    """Is this call an invocation of a value (handler, callback, getattr
    result) rather than of a named function/method?"""
    fn = call.func
    if isinstance(fn, ast.Name):
        if (f.qualname, fn.id) in NOT_APP_LOCALS:
            return False
        g = f
        while g is not None:
            if fn.id in g.params or fn.id == g.vararg or fn.id == g.kwarg:
                return True
            g = g.parent
        # local variable holding a callable (assigned in this function)
        for n in Model._walk_own(f.node):
            if isinstance(n, ast.Assign):
                for t in n.targets:
                    for x in ast.walk(t):
                        if isinstance(x, ast.Name) and x.id == fn.id:
                            return True
        return False
    if isinstance(fn, ast.Subscript):
        return True
    if isinstance(fn, ast.Call):
        inner = U(fn.func)
        # class factories and decorator registration are not handlers
        if inner in NOT_APP_FACTORIES:
            return False
        return True
    return False


class Effects:
    def __init__(self, model):
        self.m = model
        self._susp = None
        self._app = None

    # -------------------------------------------------------- suspension
    def _compute_suspend(self):
        m = self.m
        susp = {f: False for f in m.funcs}
        changed = True
        while changed:
            changed = False
            for f in m.funcs:
                if susp[f] or not f.is_async:
                    continue
                if self._body_may_suspend(f, susp):
                    susp[f] = True
                    changed = True
        self._susp = susp

    def _body_may_suspend(self, f, susp):
        for n in Model._walk_own(f.node):
            if isinstance(n, (ast.AsyncFor, ast.AsyncWith)):
                return True
            if isinstance(n, ast.comprehension) and n.is_async:
                return True
            if isinstance(n, ast.Await):
                if self.await_node_may_suspend(f, n, susp):
                    return True
        body = [s for s in f.node.body
                if not (isinstance(s, ast.Expr) and
                        isinstance(s.value, ast.Constant))]
        if len(body) == 1 and isinstance(body[0], ast.Raise) and \
                'NotImplementedError' in U(body[0]):
            return True     # abstract coroutine: an override may suspend
        return False

    def await_node_may_suspend(self, f, aw, susp=None):
        susp = susp if susp is not None else self.suspending()
        v = aw.value
        if isinstance(v, ast.Call):
            kind, tg = self.m.resolve_call(f, v)
            if kind == 'internal' and tg:
                return any((not t.is_async) or susp[t] for t in tg)
        return True

    def suspending(self):
        if self._susp is None:
            self._compute_suspend()
        return self._susp

    def may_suspend(self, f):
        return self.suspending()[f]

    def event_may_suspend(self, f, ev):
        """ev: an 'await' Event of a path of function f."""
        if ev.kind != 'await':
            return False
        if ev.extra in ('async-for', 'async-with', 'async-with-exit',
                        'async-comp'):
            return True
        node = ev.node
        if isinstance(node, ast.Await):
            return self.await_node_may_suspend(f, node)
        return True

    # -------------------------------------------------------- application
    def _compute_app(self):
        m = self.m
        app = {f: False for f in m.funcs}
        for f in m.funcs:
            for n in Model._walk_own(f.node):
                if isinstance(n, ast.Call):
                    if _dynamic_callee(f, n):
                        app[f] = True
                        break
                    if isinstance(n.func, ast.Attribute) and \
                            n.func.attr in APP_ENTRY_NAMES:
                        app[f] = True
                        break
        changed = True
        while changed:
            changed = False
            for f in m.funcs:
                if app[f]:
                    continue
                for t in m.callees(f):
                    if app[t]:
                        app[f] = True
                        changed = True
                        break
        self._app = app

    def reaches_app(self, f):
        if self._app is None:
            self._compute_app()
        return self._app[f]

    def call_reaches_app(self, f, call_node):
        """Does this Call (original node inside f) possibly run application
        code?"""
        if _dynamic_callee(f, call_node):
            return True
        if isinstance(call_node.func, ast.Attribute) and \
                call_node.func.attr in APP_ENTRY_NAMES:
            return True
        kind, tg = self.m.resolve_call(f, call_node)
        if kind == 'internal':
            return any(self.reaches_app(t) for t in tg)
        return False

    def app_raiser(self, f):
        """raiser predicate for sym.Run: calls that can run application code
        may raise anything."""
        def pred(ev):
            if ev.kind == 'call' and isinstance(ev.node, ast.Call) and \
                    self.call_reaches_app(f, ev.node):
                return '*'
            return None
        return pred
