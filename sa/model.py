"""Program model of /repo/src/socketio: modules, classes, methods, MRO,
receiver typing, class-hierarchy call resolution, attribute write sites.

Nothing from the analysed package is imported or executed; everything here is
derived from the `ast` of the files found on disk at the time of the call.
"""
import ast
import os

PKG = 'src/socketio'


class AnalysisError(Exception):
    """The checker cannot evaluate its rule on this tree (anchor vanished,
    unsupported construct, instance floor not met).  Exit code 2, never a
    VIOLATION and never a silent pass."""


class FuncInfo:
    def __init__(self, module, cls, node, parent=None, qual=None):
        self.qual = qual or node.name
        self.module = module          # ModuleInfo
        self.cls = cls                # ClassInfo or None
        self.node = node
        self.parent = parent          # enclosing FuncInfo for nested defs
        self.name = node.name
        self.is_async = isinstance(node, ast.AsyncFunctionDef)
        a = node.args
        self.posonly = [x.arg for x in a.posonlyargs]
        self.params = [x.arg for x in a.posonlyargs + a.args]
        self.kwonly = [x.arg for x in a.kwonlyargs]
        self.vararg = a.vararg.arg if a.vararg else None
        self.kwarg = a.kwarg.arg if a.kwarg else None
        nd = len(a.defaults)
        self.defaults = {}
        for p, d in zip(self.params[len(self.params) - nd:], a.defaults):
            self.defaults[p] = d
        for p, d in zip(self.kwonly, a.kw_defaults):
            if d is not None:
                self.defaults[p] = d
        self.nested = {}              # name -> FuncInfo / ClassInfo

    @property
    def qualname(self):
        return self.module.name + '.' + self.qual

    @property
    def where(self):
        return '%s:%d' % (self.module.relpath, self.node.lineno)

    def __repr__(self):
        return '<Func %s>' % self.qualname


class ClassInfo:
    def __init__(self, module, node, parent_func=None, qual=None):
        self.qual = qual or node.name
        self.module = module
        self.node = node
        self.name = node.name
        self.parent_func = parent_func
        self.base_exprs = node.bases
        self.bases = []               # resolved ClassInfo (in-package only)
        self.methods = {}
        self.class_attrs = {}         # name -> value node

    def __repr__(self):
        return '<Class %s>' % self.name


class ModuleInfo:
    def __init__(self, name, path, relpath, src):
        self.name = name
        self.path = path
        self.relpath = relpath
        self.src = src
        self.tree = ast.parse(src, filename=path)
        self.classes = {}
        self.functions = {}
        self.imports = {}             # local alias -> dotted target
        self.globals = {}             # name -> value node (module-level)


def _strip_doc(body):
    if body and isinstance(body[0], ast.Expr) and \
            isinstance(body[0].value, ast.Constant) and \
            isinstance(body[0].value.value, str):
        return body[1:]
    return body


def body_of(node):
    """Statements of a def/class without the docstring."""
    return _strip_doc(node.body)


class Model:
    def __init__(self, repo='/repo'):
        self.repo = repo
        self.pkgdir = os.path.join(repo, PKG)
        if not os.path.isdir(self.pkgdir):
            raise AnalysisError('package directory missing: ' + self.pkgdir)
        self.modules = {}
        self.classes = {}             # name -> ClassInfo (top-level, unique)
        self.funcs = []               # all FuncInfo
        for fn in sorted(os.listdir(self.pkgdir)):
            if not fn.endswith('.py'):
                continue
            path = os.path.join(self.pkgdir, fn)
            with open(path, encoding='utf-8') as f:
                src = f.read()
            try:
                m = ModuleInfo(fn[:-3], path, PKG + '/' + fn, src)
            except SyntaxError as e:
                raise AnalysisError('cannot parse %s: %s' % (path, e))
            self.modules[m.name] = m
            self._index_module(m)
        self._resolve_bases()
        self._index_attr_writes()
        self._call_cache = {}

    # ------------------------------------------------------------ indexing
    def _index_module(self, m):
        for n in m.tree.body:
            if isinstance(n, ast.ClassDef):
                c = self._index_class(m, n, None)
                m.classes[c.name] = c
                self.classes.setdefault(c.name, c)
            elif isinstance(n, (ast.FunctionDef, ast.AsyncFunctionDef)):
                f = self._index_func(m, None, n, None)
                m.functions[f.name] = f
            elif isinstance(n, ast.Import):
                for a in n.names:
                    m.imports[a.asname or a.name.split('.')[0]] = a.name
            elif isinstance(n, ast.ImportFrom):
                base = ('.' * n.level) + (n.module or '')
                for a in n.names:
                    m.imports[a.asname or a.name] = base + ':' + a.name
            elif isinstance(n, ast.Assign):
                for t in n.targets:
                    if isinstance(t, ast.Name):
                        m.globals[t.id] = n.value
                    elif isinstance(t, ast.Tuple) and \
                            isinstance(n.value, ast.Tuple) and \
                            len(t.elts) == len(n.value.elts):
                        for a, b in zip(t.elts, n.value.elts):
                            if isinstance(a, ast.Name):
                                m.globals[a.id] = b
            elif isinstance(n, ast.Try):
                for s in ast.walk(n):
                    if isinstance(s, ast.Import):
                        for a in s.names:
                            m.imports[a.asname or a.name.split('.')[0]] = \
                                a.name
                    elif isinstance(s, ast.ImportFrom):
                        base = ('.' * s.level) + (s.module or '')
                        for a in s.names:
                            m.imports[a.asname or a.name] = \
                                base + ':' + a.name

    def _index_class(self, m, node, parent_func, prefix=''):
        c = ClassInfo(m, node, parent_func, prefix + node.name)
        for n in node.body:
            if isinstance(n, (ast.FunctionDef, ast.AsyncFunctionDef)):
                f = self._index_func(m, c, n, parent_func, c.qual + '.')
                c.methods[f.name] = f
            elif isinstance(n, ast.Assign):
                for t in n.targets:
                    if isinstance(t, ast.Name):
                        c.class_attrs[t.id] = n.value
        return c

    def _index_func(self, m, cls, node, parent, prefix=''):
        f = FuncInfo(m, cls, node, parent, prefix + node.name)
        self.funcs.append(f)
        for n in self._direct_nested(node):
            if isinstance(n, (ast.FunctionDef, ast.AsyncFunctionDef)):
                f.nested[n.name] = self._index_func(m, None, n, f,
                                                    f.qual + '.')
            elif isinstance(n, ast.ClassDef):
                f.nested[n.name] = self._index_class(m, n, f, f.qual + '.')
        return f

    @staticmethod
    def _direct_nested(node):
        """def/class statements nested in `node` but not inside another
        nested def/class."""
        out = []
        stack = list(node.body)
        while stack:
            n = stack.pop()
            if isinstance(n, (ast.FunctionDef, ast.AsyncFunctionDef,
                              ast.ClassDef)):
                out.append(n)
                continue
            for ch in ast.iter_child_nodes(n):
                if isinstance(ch, (ast.stmt, ast.ExceptHandler)):
                    stack.append(ch)
        out.sort(key=lambda x: x.lineno)
        return out

    def _resolve_bases(self):
        for c in list(self.classes.values()):
            for b in c.base_exprs:
                name = None
                if isinstance(b, ast.Name):
                    name = b.id
                elif isinstance(b, ast.Attribute):
                    name = b.attr
                if name in self.classes and self.classes[name] is not c:
                    c.bases.append(self.classes[name])

    def _index_attr_writes(self):
        """attr name -> list of (FuncInfo, stmt) that assign `<x>.<attr>`,
        `<x>.<attr>[..]`, augassign or delete it."""
        self.attr_writes = {}
        for f in self.funcs:
            for n in ast.walk(f.node):
                tgts = []
                if isinstance(n, ast.Assign):
                    tgts = n.targets
                elif isinstance(n, (ast.AugAssign, ast.AnnAssign)):
                    tgts = [n.target]
                elif isinstance(n, ast.Delete):
                    tgts = n.targets
                for t in tgts:
                    for tt in (t.elts if isinstance(t, ast.Tuple) else [t]):
                        while isinstance(tt, ast.Subscript):
                            tt = tt.value
                        if isinstance(tt, ast.Attribute):
                            self.attr_writes.setdefault(tt.attr, []).append(
                                (f, n))

    # ------------------------------------------------------------ queries
    def cls(self, name):
        c = self.classes.get(name)
        if c is None:
            raise AnalysisError('anchor-missing class ' + name)
        return c

    def mro(self, c):
        """In-package linearisation (single inheritance everywhere in the
        package; falls back to depth-first left-to-right)."""
        out = [c]
        for b in c.bases:
            for x in self.mro(b):
                if x not in out:
                    out.append(x)
        return out

    def subclasses(self, c):
        return [x for x in self.classes.values()
                if x is not c and c in self.mro(x)]

    def lookup(self, c, name):
        for k in self.mro(c):
            if name in k.methods:
                return k.methods[name]
        return None

    def method(self, cname, mname):
        """Anchor lookup: the definition visible as cname.mname."""
        f = self.lookup(self.cls(cname), mname)
        if f is None:
            raise AnalysisError('anchor-missing %s.%s' % (cname, mname))
        return f

    def own_method(self, cname, mname):
        c = self.cls(cname)
        if mname not in c.methods:
            raise AnalysisError('anchor-missing %s.%s (own definition)'
                                % (cname, mname))
        return c.methods[mname]

    def nested(self, f, name):
        if name not in f.nested:
            raise AnalysisError('anchor-missing %s.<%s>' % (f.qualname, name))
        return f.nested[name]

    def is_stable_attr(self, attr):
        """True when `<obj>.<attr>` is only ever assigned inside `__init__`
        methods (or never): reads of it at two points of one function see
        the same value."""
        for f, _ in self.attr_writes.get(attr, []):
            if f.name != '__init__':
                return False
        return True

    # ------------------------------------------------------- receiver types
    @staticmethod
    def family(cname):
        return 'async' if 'Async' in cname else 'sync'

    SERVER = {'sync': 'Server', 'async': 'AsyncServer'}
    CLIENT = {'sync': 'Client', 'async': 'AsyncClient'}
    MANAGERS = {'sync': ['Manager', 'PubSubManager'],
                'async': ['AsyncManager', 'AsyncPubSubManager']}

    def receiver_classes(self, f, recv):
        """Classes an attribute-call receiver expression may denote, or None
        when it is external/unknown.  `f` is the enclosing FuncInfo."""
        owner = f
        while owner.cls is None and owner.parent is not None:
            owner = owner.parent
        c = owner.cls
        # a class nested in a function (session context manager)
        cname = c.name if c else None
        fam = self.family(cname) if cname else 'sync'
        if c is not None and c.parent_func is not None and \
                c.parent_func.cls is not None:
            fam = self.family(c.parent_func.cls.name)
        txt = ast.unparse(recv)
        if txt == 'self' and c is not None:
            return [c] + self.subclasses(c)
        if txt in ('cls', 'self.__class__') and c is not None:
            return [c]
        if txt in ('self.manager', 'self.sio.manager', 'server.manager',
                   'self.server.manager'):
            out = []
            for n in self.MANAGERS[fam]:
                k = self.classes.get(n)
                if k:
                    out.append(k)
                    out += [s for s in self.subclasses(k) if s not in out]
            if fam == 'async' or c is None or \
                    any(b.name == 'BaseServer' for b in self.mro(c)):
                pass
            return out
        if txt in ('self.server', 'server', 'self.sio'):
            if c is not None and any(
                    b.name == 'BaseManager' for b in self.mro(c)):
                # managers are shared by name prefix
                if cname == 'BaseManager':
                    return [self.cls('Server'), self.cls('AsyncServer')]
            if txt == 'server' and 'server' not in f.params and not (
                    f.parent and 'server' in f.parent.params):
                return None
            return [self.cls(self.SERVER[fam])]
        if txt == 'self.client':
            return [self.cls(self.CLIENT[fam])]
        return None

    def resolve_call(self, f, call):
        """Resolve a Call node occurring in FuncInfo f.
        Returns (kind, targets): kind in {'internal', 'external', 'builtin',
        'local', 'unknown'}; targets: list of FuncInfo for 'internal'."""
        fn = call.func
        if isinstance(fn, ast.Attribute):
            recv = fn.value
            # super().m()
            if isinstance(recv, ast.Call) and isinstance(recv.func, ast.Name) \
                    and recv.func.id == 'super':
                owner = f
                while owner.cls is None and owner.parent is not None:
                    owner = owner.parent
                if owner.cls is not None:
                    for k in self.mro(owner.cls)[1:]:
                        if fn.attr in k.methods:
                            return 'internal', [k.methods[fn.attr]]
                return 'external', []
            classes = self.receiver_classes(f, recv)
            if classes:
                tg = []
                for k in classes:
                    t = self.lookup(k, fn.attr)
                    if t is not None and t not in tg:
                        tg.append(t)
                if tg:
                    return 'internal', tg
                return 'unknown', []
            return 'external', []
        if isinstance(fn, ast.Name):
            g = f
            while g is not None:
                if fn.id in g.nested:
                    t = g.nested[fn.id]
                    if isinstance(t, FuncInfo):
                        return 'internal', [t]
                    return 'local', []
                g = g.parent
            if fn.id in f.module.functions:
                return 'internal', [f.module.functions[fn.id]]
            if fn.id in f.module.classes:
                init = self.lookup(f.module.classes[fn.id], '__init__')
                return 'internal', [init] if init else []
            return 'builtin', []
        return 'unknown', []

    # ------------------------------------------------------------ call graph
    def callees(self, f, values=False):
        """In-package FuncInfo that f calls directly (CHA).  With
        values=True also the bound methods / nested functions it passes as
        values (start_background_task targets, partial, eio.on handlers):
        those run later or elsewhere, not inline."""
        key = (f, values)
        if key in self._call_cache:
            return self._call_cache[key]
        out = []
        self._call_cache[key] = out
        for n in self._walk_own(f.node):
            if isinstance(n, ast.Call):
                kind, tg = self.resolve_call(f, n)
                for t in tg:
                    if t not in out:
                        out.append(t)
                if not values:
                    continue
                for a in list(n.args) + [k.value for k in n.keywords]:
                    if isinstance(a, ast.Attribute):
                        classes = self.receiver_classes(f, a.value)
                        if classes:
                            for k in classes:
                                t = self.lookup(k, a.attr)
                                if t is not None and t not in out:
                                    out.append(t)
                    elif isinstance(a, ast.Name) and a.id in f.nested and \
                            isinstance(f.nested[a.id], FuncInfo):
                        if f.nested[a.id] not in out:
                            out.append(f.nested[a.id])
        return out

    @staticmethod
    def _walk_own(node):
        """ast.walk that does not descend into nested def/class/lambda."""
        stack = list(ast.iter_child_nodes(node))
        while stack:
            n = stack.pop()
            yield n
            if isinstance(n, (ast.FunctionDef, ast.AsyncFunctionDef,
                              ast.ClassDef, ast.Lambda)):
                continue
            stack.extend(ast.iter_child_nodes(n))

    def reachable(self, f, values=False):
        seen = [f]
        work = [f]
        while work:
            g = work.pop()
            for t in self.callees(g, values):
                if t not in seen:
                    seen.append(t)
                    work.append(t)
        return seen

    def stats(self):
        ncalls = res = ext = unk = 0
        for f in self.funcs:
            for n in self._walk_own(f.node):
                if isinstance(n, ast.Call):
                    ncalls += 1
                    k, _ = self.resolve_call(f, n)
                    if k == 'internal':
                        res += 1
                    elif k in ('external', 'builtin', 'local'):
                        ext += 1
                    else:
                        unk += 1
        return {'modules': len(self.modules), 'classes': len(self.classes),
                'functions': len(self.funcs), 'call_sites': ncalls,
                'calls_resolved_internal': res,
                'calls_external_or_builtin': ext, 'calls_unresolved': unk}
