"""Helpers shared by the rule modules."""
import ast

from .model import AnalysisError, body_of
from .sym import U, Run, run_function, is_const, attr_path, base_path, SYM


def same(a, b):
    if a is None or b is None:
        return a is b
    return ast.dump(a) == ast.dump(b)


def strip_await(n):
    return n.value if isinstance(n, ast.Await) else n


class Binding:
    """Result of binding the arguments of a Call to a callee signature."""

    def __init__(self):
        self.args = {}          # param -> ast
        self.extra_pos = []     # positionals beyond the signature
        self.extra_kw = {}      # keywords the callee does not name
        self.star = None        # *expr passed
        self.dstar = None       # **expr passed
        self.errors = []

    def get(self, name, default=None):
        return self.args.get(name, default)


def bind_call(call, finfo, skip_self=None, offset=0):
    """Bind call arguments to finfo's parameters following Python's rules.
    `offset`: number of leading callee parameters already supplied (partial,
    start_background_task target).  Methods: `self` is skipped."""
    b = Binding()
    params = list(finfo.params)
    if skip_self is None:
        skip_self = finfo.cls is not None and params[:1] == ['self']
    if skip_self:
        params = params[1:]
    params = params[offset:]
    pos = list(call.args)
    i = 0
    for a in pos:
        if isinstance(a, ast.Starred):
            b.star = a.value
            continue
        if i < len(params):
            b.args[params[i]] = a
        elif finfo.vararg:
            b.extra_pos.append(a)
        else:
            b.errors.append('too many positional arguments')
            b.extra_pos.append(a)
        i += 1
    for k in call.keywords:
        if k.arg is None:
            b.dstar = k.value
            continue
        if k.arg in params or k.arg in finfo.kwonly:
            if k.arg in b.args:
                b.errors.append('duplicate argument ' + k.arg)
            b.args[k.arg] = k.value
        elif finfo.kwarg:
            b.extra_kw[k.arg] = k.value
        else:
            b.errors.append('unexpected keyword ' + k.arg)
            b.extra_kw[k.arg] = k.value
    return b


def callee_name(call):
    f = call.func
    if isinstance(f, ast.Attribute):
        return f.attr
    if isinstance(f, ast.Name):
        return f.id
    return None


def recv_text(call):
    f = call.func
    if isinstance(f, ast.Attribute):
        return U(f.value)
    return None


def kw(call, name):
    for k in call.keywords:
        if k.arg == name:
            return k.value
    return None


def arg(call, pos=None, name=None):
    """positional index and/or keyword name"""
    if name is not None:
        v = kw(call, name)
        if v is not None:
            return v
    if pos is not None and pos < len(call.args) and \
            not any(isinstance(a, ast.Starred) for a in call.args[:pos + 1]):
        return call.args[pos]
    return None


def where(finfo, node=None):
    ln = getattr(node, 'lineno', None) or finfo.node.lineno
    return '%s:%d' % (finfo.module.relpath, ln)


def ns_or_default(n):
    """matches `<x> or '/'`; returns x or None"""
    if isinstance(n, ast.BoolOp) and isinstance(n.op, ast.Or) and \
            len(n.values) == 2 and is_const(n.values[1], '/'):
        return n.values[0]
    return None


def cond_before(path, ev, pred, pol=None):
    """Is there a path condition established before event `ev` (index) whose
    (expanded) atom satisfies pred and whose polarity is pol?"""
    for c in path.conds:
        if c.at <= ev.idx and (pol is None or c.pol == pol) and pred(c):
            return c
    return None


def events_between(path, a, b):
    return path.events[a.idx + 1:b.idx]


def in_finally_or_handler(ev):
    return any(part in ('final', 'handler') for _, part in ev.trys)


def walk_own(node):
    stack = list(ast.iter_child_nodes(node))
    while stack:
        n = stack.pop()
        yield n
        if isinstance(n, (ast.FunctionDef, ast.AsyncFunctionDef,
                          ast.ClassDef, ast.Lambda)):
            continue
        stack.extend(ast.iter_child_nodes(n))


def calls_in(node):
    return [n for n in walk_own(node) if isinstance(n, ast.Call)]


SA = ('sync', 'async')
SERVER = {'sync': 'Server', 'async': 'AsyncServer'}
CLIENT = {'sync': 'Client', 'async': 'AsyncClient'}
MANAGER = {'sync': 'Manager', 'async': 'AsyncManager'}
PUBSUB = {'sync': 'PubSubManager', 'async': 'AsyncPubSubManager'}


def eval_cmp(atom, val):
    """Evaluate a canonical comparison atom (`<`, `==`, as produced by
    sym.Run.normal_atom) given val(node) -> number | None."""
    if not isinstance(atom, ast.Compare) or len(atom.ops) != 1:
        return None
    a, b = val(atom.left), val(atom.comparators[0])
    if a is None or b is None:
        return None
    op = atom.ops[0]
    if isinstance(op, ast.Lt):
        return a < b
    if isinstance(op, ast.Eq):
        return a == b
    if isinstance(op, ast.Gt):
        return a > b
    if isinstance(op, ast.LtE):
        return a <= b
    if isinstance(op, ast.GtE):
        return a >= b
    return None


def num_val(table):
    """val function for eval_cmp: integer constants and the expressions
    whose text is a key of `table`."""
    def val(node):
        if isinstance(node, ast.Constant) and isinstance(node.value, int) \
                and not isinstance(node.value, bool):
            return node.value
        return table.get(U(node))
    return val


def expand_aliases(fnode):
    """Copy of a function node in which a local that is assigned exactly
    once from a pure attribute chain rooted at `self` (`manager =
    self.sio.manager`), the chain itself not being re-bound in the function,
    is replaced by that chain everywhere and its assignment dropped - so that
    rules reading qualified texts see through the alias."""
    import copy
    stores = {}
    for n in ast.walk(fnode):
        if isinstance(n, ast.Name) and isinstance(n.ctx, ast.Store):
            stores[n.id] = stores.get(n.id, 0) + 1
    params = {a.arg for a in fnode.args.args + fnode.args.kwonlyargs}
    alias = {}
    for n in ast.walk(fnode):
        if isinstance(n, ast.Assign) and len(n.targets) == 1 and \
                isinstance(n.targets[0], ast.Name) and \
                stores.get(n.targets[0].id) == 1 and \
                n.targets[0].id not in params:
            v = n.value
            root = v
            while isinstance(root, ast.Attribute):
                root = root.value
            if isinstance(v, ast.Attribute) and isinstance(root, ast.Name) \
                    and root.id == 'self':
                chain = ast.unparse(v)
                if not any(isinstance(x, ast.Attribute) and
                           isinstance(x.ctx, ast.Store) and
                           ast.unparse(x) == chain for x in ast.walk(fnode)):
                    alias[n.targets[0].id] = v
    if not alias:
        return fnode

    class R(ast.NodeTransformer):
        def visit_Assign(self, n):
            if len(n.targets) == 1 and isinstance(n.targets[0], ast.Name) \
                    and n.targets[0].id in alias:
                return ast.copy_location(ast.Pass(), n)
            return self.generic_visit(n)

        def visit_Name(self, n):
            if n.id in alias and isinstance(n.ctx, ast.Load):
                return ast.copy_location(copy.deepcopy(alias[n.id]), n)
            return n
    out = R().visit(copy.deepcopy(fnode))
    ast.fix_missing_locations(out)
    return out
