"""CLI of the static checks:  ./check <Cxx> [--tier quick|thorough]
                                        [--repo DIR] [--evidence-dir DIR]
exit 0 = all obligations discharged (or only known findings)
exit 1 = new violation (a VIOLATION line was printed)
exit 2 = analysis error (anchor vanished, unsupported construct, floor not
         met, internal error) - never a silent pass, never a VIOLATION."""
import argparse
import importlib
import os
import sys
import traceback

HERE = os.path.dirname(os.path.abspath(__file__))
sys.path.insert(0, HERE)

from sa.model import AnalysisError  # noqa: E402
from sa.report import Ctx           # noqa: E402


def run_property(prop, tier, repo, evidence_dir=None, quiet=False, seed=0,
                 selftest=True):
    mod = importlib.import_module('sa.rules.' + prop.lower())
    ctx = Ctx(prop, tier=tier, repo=repo, seed=seed,
              evidence_dir=evidence_dir, quiet=quiet)
    mod.run(ctx)
    st = None
    if tier == 'thorough' and selftest and not ctx.new_violations():
        from selftest import harness
        st = harness.run_for(prop, repo=repo)
        if not quiet:
            print('%s selftest: breaking %d/%d detected, neutral %d/%d '
                  'silent' % (prop, st['breaking_detected'], st['breaking'],
                              st['neutral_silent'], st['neutral']))
        if st['failures']:
            for f in st['failures']:
                print('SELFTEST-FAILURE: ' + f)
            ctx.finish(self_test=st)
            raise AnalysisError('self-test of the checker failed: %d '
                                'variant(s)' % len(st['failures']))
    return ctx.finish(self_test=st)


def main(argv=None):
    ap = argparse.ArgumentParser()
    ap.add_argument('prop')
    ap.add_argument('--tier', default=os.environ.get('VERIF_TIER', 'quick'),
                    choices=['quick', 'thorough'])
    ap.add_argument('--repo', default='/repo')
    ap.add_argument('--evidence-dir', default=None)
    ap.add_argument('--quiet', action='store_true')
    ap.add_argument('--no-selftest', action='store_true')
    a = ap.parse_args(argv)
    seed = int(os.environ.get('VERIF_SEED', '0') or 0)
    try:
        return run_property(a.prop.upper(), a.tier, a.repo, a.evidence_dir,
                            a.quiet, seed, selftest=not a.no_selftest)
    except AnalysisError as e:
        print('ANALYSIS-ERROR property=%s %s' % (a.prop.upper(), e))
        return 2
    except Exception:
        traceback.print_exc()
        print('ANALYSIS-ERROR property=%s internal error (see traceback)'
              % a.prop.upper())
        return 2


if __name__ == '__main__':
    sys.exit(main())
